package drv

import (
	"fmt"

	"github.com/csgura/fp"
	"github.com/csgura/fp/either"
	"github.com/csgura/fp/fn0"
	"github.com/csgura/fp/fn1"
	"github.com/csgura/fp/iterator"
	"github.com/csgura/fp/lazy"
	"github.com/csgura/fp/list"
	"github.com/csgura/fp/option"
	"github.com/csgura/fp/seq"
	"github.com/csgura/fp/statet"
	"github.com/csgura/fp/try"
	"verif/mc"
)

// The monad laws, for every value of Dom(M) (every constructor; makers, because iterators are
// single use) and every f, g of a six letter alphabet per monad:
//
//	left identity   FlatMap(unit(a), f)          = f(a)
//	right identity  FlatMap(m, unit)             = m
//	associativity   FlatMap(FlatMap(m, f), g)    = FlatMap(m, x => FlatMap(f(x), g))
//	functor         Map(m, h)                    = FlatMap(m, unit . h)
//
// Both sides are rendered structurally (Show) and compared.

type named[T any] struct {
	name string
	v    T
}

type lawSet[M any] struct {
	pkg     string
	dom     []named[func(e *Env) M]
	alpha   []named[func(e *Env, a string) M]
	unit    func(string) M
	flatMap func(M, func(string) M) M
	mapf    func(M, func(string) string) M
	vals    []string
}

var pureAlpha = []named[func(string) string]{
	{"id", func(s string) string { return s }},
	{"prime", func(s string) string { return s + "'" }},
	{"const", func(string) string { return "c" }},
}

func registerLawSet[M any](r *mc.Registry, ls lawSet[M]) {
	pick := func(x *mc.X, label string, n int) int { return x.Choose(n, label) }
	r.Seq("laws/"+ls.pkg+"/left-identity", func(x *mc.X) {
		e := NewEnv(x, "C01", "laws/"+ls.pkg+"/left-identity", false)
		a := ls.vals[pick(x, "a", len(ls.vals))]
		f := ls.alpha[pick(x, "f", len(ls.alpha))]
		x.NonTrivial()
		e.Equal(fmt.Sprintf("left-identity(f=%s)", f.name),
			func() any { return ls.flatMap(ls.unit(a), func(s string) M { return f.v(e, s) }) },
			func() any { return f.v(e, a) },
			fmt.Sprintf("FlatMap(unit(%q), %s) = %s(%q)", a, f.name, f.name, a))
	})
	r.Seq("laws/"+ls.pkg+"/right-identity", func(x *mc.X) {
		e := NewEnv(x, "C01", "laws/"+ls.pkg+"/right-identity", false)
		m := ls.dom[pick(x, "m", len(ls.dom))]
		x.NonTrivial()
		e.Equal(fmt.Sprintf("right-identity(m=%s)", m.name),
			func() any { return ls.flatMap(m.v(e), ls.unit) },
			func() any { return m.v(e) },
			fmt.Sprintf("FlatMap(%s, unit) = %s", m.name, m.name))
	})
	r.Seq("laws/"+ls.pkg+"/associativity", func(x *mc.X) {
		e := NewEnv(x, "C01", "laws/"+ls.pkg+"/associativity", false)
		m := ls.dom[pick(x, "m", len(ls.dom))]
		f := ls.alpha[pick(x, "f", len(ls.alpha))]
		g := ls.alpha[pick(x, "g", len(ls.alpha))]
		ff := func(s string) M { return f.v(e, s) }
		gg := func(s string) M { return g.v(e, s) }
		if f.name != "unit" && g.name != "unit" {
			x.NonTrivial()
		}
		e.Equal(fmt.Sprintf("associativity(f=%s,g=%s)", f.name, g.name),
			func() any { return ls.flatMap(ls.flatMap(m.v(e), ff), gg) },
			func() any { return ls.flatMap(m.v(e), func(s string) M { return ls.flatMap(ff(s), gg) }) },
			fmt.Sprintf("FlatMap(FlatMap(%s, %s), %s) = FlatMap(%s, x => FlatMap(%s(x), %s))", m.name, f.name, g.name, m.name, f.name, g.name))
	})
	if ls.mapf != nil {
		r.Seq("laws/"+ls.pkg+"/map-is-flatmap-unit", func(x *mc.X) {
			e := NewEnv(x, "C01", "laws/"+ls.pkg+"/map-is-flatmap-unit", false)
			m := ls.dom[pick(x, "m", len(ls.dom))]
			h := pureAlpha[pick(x, "h", len(pureAlpha))]
			hh := func(s string) string { e.Call("h", s); return h.v(s) }
			x.NonTrivial()
			e.Equal(fmt.Sprintf("map(h=%s)", h.name),
				func() any { return ls.mapf(m.v(e), hh) },
				func() any { return ls.flatMap(m.v(e), func(s string) M { return ls.unit(hh(s)) }) },
				fmt.Sprintf("Map(%s, %s) = FlatMap(%s, unit . %s)", m.name, h.name, m.name, h.name))
		})
	}
}

func registerLaws(r *mc.Registry) {
	vals := []string{"a", "b", ""}
	contents := []named[[]string]{{"[]", nil}, {"[a]", []string{"a"}}, {"[a b]", []string{"a", "b"}}, {"[b a b]", []string{"b", "a", "b"}}, {`[a b ""]`, []string{"a", "b", ""}}}

	// ---- Option
	registerLawSet(r, lawSet[fp.Option[string]]{
		pkg: "option", vals: vals, unit: option.Pure[string], flatMap: option.FlatMap[string, string], mapf: option.Map[string, string],
		dom: []named[func(*Env) fp.Option[string]]{
			{"None", func(*Env) fp.Option[string] { return option.None[string]() }},
			{"zero-value", func(*Env) fp.Option[string] { return fp.Option[string]{} }},
			{"Some(a)", func(*Env) fp.Option[string] { return option.Some("a") }},
			{"Some(b)", func(*Env) fp.Option[string] { return option.Some("b") }},
			{`Some("")`, func(*Env) fp.Option[string] { return option.Some("") }},
		},
		alpha: []named[func(*Env, string) fp.Option[string]]{
			{"unit", func(_ *Env, s string) fp.Option[string] { return option.Some(s) }},
			{"none", func(*Env, string) fp.Option[string] { return option.None[string]() }},
			{"plus", func(_ *Env, s string) fp.Option[string] { return option.Some(s + "+") }},
			{"none-on-a", func(_ *Env, s string) fp.Option[string] {
				if s == "a" {
					return option.None[string]()
				}
				return option.Some(s + "!")
			}},
			{"const", func(*Env, string) fp.Option[string] { return option.Some("k") }},
			{"some-only-on-a", func(_ *Env, s string) fp.Option[string] {
				if s == "a" {
					return option.Some("A")
				}
				return option.None[string]()
			}},
		},
	})

	// ---- Try
	registerLawSet(r, lawSet[fp.Try[string]]{
		pkg: "try", vals: vals, unit: try.Pure[string], flatMap: try.FlatMap[string, string], mapf: try.Map[string, string],
		dom: []named[func(*Env) fp.Try[string]]{
			{"Success(a)", func(*Env) fp.Try[string] { return try.Success("a") }},
			{"Success(b)", func(*Env) fp.Try[string] { return try.Success("b") }},
			{`Success("")`, func(*Env) fp.Try[string] { return try.Success("") }},
			{"Failure(e1)", func(*Env) fp.Try[string] { return try.Failure[string](E[1]) }},
			{"Failure(e2)", func(*Env) fp.Try[string] { return try.Failure[string](E[2]) }},
			// the library's own errors are values like any other
			{"Failure(ErrOptionEmpty)", func(*Env) fp.Try[string] { return try.Failure[string](fp.ErrOptionEmpty) }},
			{"FromOption(None)", func(*Env) fp.Try[string] { return try.FromOption(option.None[string]()) }},
			{"Failure(ErrTryNotFailed)", func(*Env) fp.Try[string] { return try.Failure[string](fp.ErrTryNotFailed) }},
		},
		alpha: []named[func(*Env, string) fp.Try[string]]{
			{"unit", func(_ *Env, s string) fp.Try[string] { return try.Success(s) }},
			{"fail", func(*Env, string) fp.Try[string] { return try.Failure[string](E[0]) }},
			{"plus", func(_ *Env, s string) fp.Try[string] { return try.Success(s + "+") }},
			{"fail-on-a", func(_ *Env, s string) fp.Try[string] {
				if s == "a" {
					return try.Failure[string](E[3])
				}
				return try.Success(s + "!")
			}},
			{"const", func(*Env, string) fp.Try[string] { return try.Success("k") }},
			{"fail-other", func(*Env, string) fp.Try[string] { return try.Failure[string](EK2) }},
			{"fail-ErrOptionEmpty-on-a", func(_ *Env, s string) fp.Try[string] {
				if s == "a" {
					return try.FromOption(option.None[string]())
				}
				return try.Failure[string](fp.ErrFutureNotFailed)
			}},
		},
	})

	// ---- Either[string,_]
	registerLawSet(r, lawSet[fp.Either[string, string]]{
		pkg: "either", vals: vals, unit: either.Pure[string, string], flatMap: either.FlatMap[string, string, string], mapf: either.Map[string, string, string],
		dom: []named[func(*Env) fp.Either[string, string]]{
			{"Right(a)", func(*Env) fp.Either[string, string] { return either.Right[string]("a") }},
			{"Right(b)", func(*Env) fp.Either[string, string] { return either.Right[string]("b") }},
			{"Left(l1)", func(*Env) fp.Either[string, string] { return either.Left[string, string]("l1") }},
			{"Left(l2)", func(*Env) fp.Either[string, string] { return either.Left[string, string]("l2") }},
			{"NotRight(l3)", func(*Env) fp.Either[string, string] { return either.NotRight[string]("l3") }},
		},
		alpha: []named[func(*Env, string) fp.Either[string, string]]{
			{"unit", func(_ *Env, s string) fp.Either[string, string] { return either.Right[string](s) }},
			{"left", func(*Env, string) fp.Either[string, string] { return either.Left[string, string]("lk") }},
			{"plus", func(_ *Env, s string) fp.Either[string, string] { return either.Right[string](s + "+") }},
			{"left-on-a", func(_ *Env, s string) fp.Either[string, string] {
				if s == "a" {
					return either.Left[string, string]("la")
				}
				return either.Right[string](s + "!")
			}},
			{"const", func(*Env, string) fp.Either[string, string] { return either.Right[string]("k") }},
			{"left-other", func(_ *Env, s string) fp.Either[string, string] { return either.Left[string, string]("lk2:" + s) }},
		},
	})

	// ---- Seq
	var seqDom []named[func(*Env) fp.Seq[string]]
	seqDom = append(seqDom, named[func(*Env) fp.Seq[string]]{"nil", func(*Env) fp.Seq[string] { return nil }})
	for _, c := range contents {
		c := c
		seqDom = append(seqDom, named[func(*Env) fp.Seq[string]]{"seq" + c.name, func(*Env) fp.Seq[string] { return append(fp.Seq[string]{}, c.v...) }})
	}
	registerLawSet(r, lawSet[fp.Seq[string]]{
		pkg: "seq", vals: vals, unit: seq.Pure[string], flatMap: seq.FlatMap[string, string], mapf: seq.Map[string, string],
		dom: seqDom,
		alpha: []named[func(*Env, string) fp.Seq[string]]{
			{"unit", func(_ *Env, s string) fp.Seq[string] { return seq.Of(s) }},
			{"empty", func(*Env, string) fp.Seq[string] { return seq.Empty[string]() }},
			{"plus", func(_ *Env, s string) fp.Seq[string] { return seq.Of(s + "+") }},
			{"empty-on-a", func(_ *Env, s string) fp.Seq[string] {
				if s == "a" {
					return nil
				}
				return seq.Of(s + "!")
			}},
			{"two", func(_ *Env, s string) fp.Seq[string] { return seq.Of(s, s+"'") }},
			{"three-on-b", func(_ *Env, s string) fp.Seq[string] {
				if s == "b" {
					return seq.Of("x", "y", "z")
				}
				return seq.Of(s)
			}},
			// results with spare capacity that alias one array (what Take/Init/s[:i] return)
			{"views", func(e *Env, s string) fp.Seq[string] {
				switch s {
				case "a":
					return e.Views(1)
				case "b":
					return e.Views(2)
				}
				return e.Views(3)
			}},
		},
	})

	// ---- List
	var listDom []named[func(*Env) fp.List[string]]
	for _, c := range contents {
		c := c
		for how, hn := range []string{"Of", "Cons", "Generate"} {
			how := how
			listDom = append(listDom, named[func(*Env) fp.List[string]]{hn + c.name, func(*Env) fp.List[string] { return ListOf(how, c.v) }})
		}
		listDom = append(listDom, named[func(*Env) fp.List[string]]{"Collect" + c.name, func(e *Env) fp.List[string] { return list.Collect(IterOf(e, c.v)) }})
	}
	listDom = append(listDom, named[func(*Env) fp.List[string]]{"Empty", func(*Env) fp.List[string] { return list.Empty[string]() }})
	registerLawSet(r, lawSet[fp.List[string]]{
		pkg: "list", vals: vals, unit: func(s string) fp.List[string] { return list.Of(s) }, flatMap: list.FlatMap[string, string], mapf: list.Map[string, string],
		dom: listDom,
		alpha: []named[func(*Env, string) fp.List[string]]{
			{"unit", func(_ *Env, s string) fp.List[string] { return list.Of(s) }},
			{"empty", func(*Env, string) fp.List[string] { return list.Empty[string]() }},
			{"plus", func(_ *Env, s string) fp.List[string] { return list.Of(s + "+") }},
			{"empty-on-a", func(_ *Env, s string) fp.List[string] {
				if s == "a" {
					return list.Empty[string]()
				}
				return list.Of(s + "!")
			}},
			{"two", func(_ *Env, s string) fp.List[string] { return ListOf(1, []string{s, s + "'"}) }},
			{"three-on-b-lazy", func(_ *Env, s string) fp.List[string] {
				if s == "b" {
					return ListOf(2, []string{"x", "y", "z"})
				}
				return list.Of(s)
			}},
		},
	})

	// ---- Iterator
	var itDom []named[func(*Env) fp.Iterator[string]]
	for _, c := range contents {
		c := c
		itDom = append(itDom,
			named[func(*Env) fp.Iterator[string]]{"Of" + c.name, func(*Env) fp.Iterator[string] { return iterator.Of(c.v...) }},
			named[func(*Env) fp.Iterator[string]]{"MakeIterator" + c.name, func(e *Env) fp.Iterator[string] { return IterOf(e, c.v) }},
			named[func(*Env) fp.Iterator[string]]{"FromList" + c.name, func(*Env) fp.Iterator[string] { return iterator.FromList(ListOf(1, c.v)) }},
		)
	}
	itDom = append(itDom,
		named[func(*Env) fp.Iterator[string]]{"Empty", func(*Env) fp.Iterator[string] { return iterator.Empty[string]() }},
		named[func(*Env) fp.Iterator[string]]{"zero-value", func(*Env) fp.Iterator[string] { return fp.Iterator[string]{} }},
		named[func(*Env) fp.Iterator[string]]{"Concat[a][b]", func(*Env) fp.Iterator[string] { return iterator.Of("a").Concat(iterator.Of("b")) }},
	)
	registerLawSet(r, lawSet[fp.Iterator[string]]{
		pkg: "iterator", vals: vals, unit: func(s string) fp.Iterator[string] { return iterator.Of(s) }, flatMap: iterator.FlatMap[string, string], mapf: iterator.Map[string, string],
		dom: itDom,
		alpha: []named[func(*Env, string) fp.Iterator[string]]{
			{"unit", func(_ *Env, s string) fp.Iterator[string] { return iterator.Of(s) }},
			{"empty", func(*Env, string) fp.Iterator[string] { return iterator.Empty[string]() }},
			{"plus", func(e *Env, s string) fp.Iterator[string] { return IterOf(e, []string{s + "+"}) }},
			{"empty-on-a", func(e *Env, s string) fp.Iterator[string] {
				if s == "a" {
					return IterOf[string](e, nil)
				}
				return iterator.Of(s + "!")
			}},
			{"two", func(e *Env, s string) fp.Iterator[string] { return IterOf(e, []string{s, s + "'"}) }},
			{"three-on-b", func(_ *Env, s string) fp.Iterator[string] {
				if s == "b" {
					return iterator.Of("x", "y", "z")
				}
				return iterator.Of(s)
			}},
		},
	})

	// ---- lazy.Eval
	registerLawSet(r, lawSet[lazy.Eval[string]]{
		pkg: "lazy", vals: vals, unit: lazy.Done[string], flatMap: lazy.FlatMap[string], mapf: lazy.Map[string],
		dom: []named[func(*Env) lazy.Eval[string]]{
			{"Done(a)", func(*Env) lazy.Eval[string] { return lazy.Done("a") }},
			{"Done(b)", func(*Env) lazy.Eval[string] { return lazy.Done("b") }},
			{"Call(a)", func(e *Env) lazy.Eval[string] { return lazy.Call(func() string { e.Call("thunk"); return "a" }) }},
			{"TailCall(Done(a))", func(e *Env) lazy.Eval[string] {
				return lazy.TailCall(func() lazy.Eval[string] { e.Call("thunk"); return lazy.Done("a") })
			}},
			{"TailCall(TailCall(Call(b)))", func(e *Env) lazy.Eval[string] {
				return lazy.TailCall(func() lazy.Eval[string] {
					return lazy.TailCall(func() lazy.Eval[string] { return lazy.Call(func() string { return "b" }) })
				})
			}},
			{"Done(a).FlatMap(plus)", func(*Env) lazy.Eval[string] {
				return lazy.Done("a").FlatMap(func(s string) lazy.Eval[string] { return lazy.Done(s + "+") })
			}},
			{"Done(a).Map.Map", func(*Env) lazy.Eval[string] {
				return lazy.Done("a").Map(func(s string) string { return s + "1" }).Map(func(s string) string { return s + "2" })
			}},
			{"zero-value", func(*Env) lazy.Eval[string] { return lazy.Eval[string]{} }},
		},
		alpha: []named[func(*Env, string) lazy.Eval[string]]{
			{"unit", func(_ *Env, s string) lazy.Eval[string] { return lazy.Done(s) }},
			{"plus", func(_ *Env, s string) lazy.Eval[string] { return lazy.Done(s + "+") }},
			{"call", func(_ *Env, s string) lazy.Eval[string] { return lazy.Call(func() string { return s + "!" }) }},
			{"tailcall", func(_ *Env, s string) lazy.Eval[string] {
				return lazy.TailCall(func() lazy.Eval[string] { return lazy.Done(s + "~") })
			}},
			{"const", func(*Env, string) lazy.Eval[string] { return lazy.Done("k") }},
			{"zero-value", func(*Env, string) lazy.Eval[string] { return lazy.Eval[string]{} }},
			{"chain", func(_ *Env, s string) lazy.Eval[string] {
				return lazy.Done(s).FlatMap(func(t string) lazy.Eval[string] {
					return lazy.Call(func() string { return t + "1" }).FlatMap(func(u string) lazy.Eval[string] { return lazy.Done(u + "2") })
				})
			}},
		},
	})

	// ---- StateT[int,_]
	type ST = fp.StateT[int, string]
	registerLawSet(r, lawSet[ST]{
		pkg: "statet", vals: vals, unit: statet.Pure[int, string], flatMap: statet.FlatMap[int, string, string], mapf: statet.Map[int, string, string],
		dom: []named[func(*Env) ST]{
			{"Pure(a)", func(*Env) ST { return statet.Pure[int]("a") }},
			{"FromTry(Failure(e1))", func(*Env) ST { return statet.FromTry[int](try.Failure[string](E[1])) }},
			{"FromTry(FromOption(None))", func(*Env) ST { return statet.FromTry[int](try.FromOption(option.None[string]())) }},
			{"FromTry(Success(b))", func(*Env) ST { return statet.FromTry[int](try.Success("b")) }},
			{"GetS", func(*Env) ST { return statet.GetS(func(s int) string { return "g" + Itoa(s) }) }},
			{"ModifyS", func(*Env) ST {
				return statet.ModifyS(func(s int) int { return 2*s + 1 }, func(s int) string { return "m" + Itoa(s) })
			}},
			{"Run", func(*Env) ST { return statet.Run(func(s int) (string, int) { return "r" + Itoa(s), s + 10 }) }},
			{"GetST(fails on 0)", func(*Env) ST {
				return statet.GetST(func(s int) fp.Try[string] {
					if s == 0 {
						return try.Failure[string](E[2])
					}
					return try.Success("t" + Itoa(s))
				})
			}},
			{"fail-and-move", func(*Env) ST {
				return func(s int) (fp.Try[string], int) { return try.Failure[string](E[3]), s + 100 }
			}},
		},
		alpha: []named[func(*Env, string) ST]{
			{"unit", func(_ *Env, a string) ST { return statet.Pure[int](a) }},
			{"fail", func(_ *Env, a string) ST { return statet.FromTry[int](try.Failure[string](E[0])) }},
			{"fail-ErrOptionEmpty", func(_ *Env, a string) ST { return statet.FromTry[int](try.Failure[string](fp.ErrOptionEmpty)) }},
			{"plus-and-move", func(_ *Env, a string) ST {
				return func(s int) (fp.Try[string], int) { return try.Success(a + "+" + Itoa(s)), 3*s + 1 }
			}},
			{"fail-on-a-and-move", func(_ *Env, a string) ST {
				return func(s int) (fp.Try[string], int) {
					if a == "a" {
						return try.Failure[string](E[4]), s + 7
					}
					return try.Success(a + "!"), s + 5
				}
			}},
			{"read-state", func(_ *Env, a string) ST { return statet.GetS(func(s int) string { return a + "@" + Itoa(s) }) }},
			{"fail-on-odd-state", func(_ *Env, a string) ST {
				return func(s int) (fp.Try[string], int) {
					if s%2 == 1 {
						return try.Failure[string](EK2), s * 2
					}
					return try.Success(a), s + 1
				}
			}},
		},
	})

	// ---- fn0
	type F0 = fp.Func0[string]
	registerLawSet(r, lawSet[F0]{
		pkg: "fn0", vals: vals, unit: fn0.Pure[string],
		flatMap: func(m F0, k func(string) F0) F0 { return fn0.FlatMap(m, fp.Func1[string, F0](k)) },
		mapf:    func(m F0, h func(string) string) F0 { return fn0.Map(m, fp.Func1[string, string](h)) },
		dom: []named[func(*Env) F0]{
			{"Pure(a)", func(*Env) F0 { return fn0.Pure("a") }},
			{"Pure(b)", func(*Env) F0 { return fn0.Pure("b") }},
			{"closure", func(e *Env) F0 { return func(fp.Unit) string { e.Call("thunk"); return "c" } }},
		},
		alpha: []named[func(*Env, string) F0]{
			{"unit", func(_ *Env, a string) F0 { return fn0.Pure(a) }},
			{"plus", func(_ *Env, a string) F0 { return fn0.Pure(a + "+") }},
			{"closure", func(e *Env, a string) F0 { return func(fp.Unit) string { e.Call("k.run", a); return a + "!" } }},
			{"const", func(*Env, string) F0 { return fn0.Pure("k") }},
			{"branch-on-a", func(_ *Env, a string) F0 {
				if a == "a" {
					return fn0.Pure("A")
				}
				return func(fp.Unit) string { return a + "?" }
			}},
			{"nested", func(_ *Env, a string) F0 {
				return fn0.FlatMap(fn0.Pure(a), fp.Func1[string, F0](func(t string) F0 { return fn0.Pure(t + "~") }))
			}},
		},
	})

	// ---- fn1[int,_]
	type F1 = fp.Func1[int, string]
	registerLawSet(r, lawSet[F1]{
		pkg: "fn1", vals: vals, unit: fn1.Pure[int, string],
		flatMap: func(m F1, k func(string) F1) F1 { return fn1.FlatMap(m, fp.Func1[string, F1](k)) },
		mapf:    func(m F1, h func(string) string) F1 { return fn1.Map(m, fp.Func1[string, string](h)) },
		dom: []named[func(*Env) F1]{
			{"Pure(a)", func(*Env) F1 { return fn1.Pure[int]("a") }},
			{"reader", func(*Env) F1 { return func(x int) string { return "r" + Itoa(x) } }},
			{"a-on-0", func(*Env) F1 {
				return func(x int) string {
					if x == 0 {
						return "a"
					}
					return "b"
				}
			}},
			{"Memoize(reader)", func(*Env) F1 { return fn1.Memoize(func(x int) string { return "m" + Itoa(x) }) }},
		},
		alpha: []named[func(*Env, string) F1]{
			{"unit", func(_ *Env, a string) F1 { return fn1.Pure[int](a) }},
			{"plus", func(_ *Env, a string) F1 { return fn1.Pure[int](a + "+") }},
			{"reader", func(_ *Env, a string) F1 { return func(x int) string { return a + "@" + Itoa(x) } }},
			{"const", func(*Env, string) F1 { return fn1.Pure[int]("k") }},
			{"branch-on-a", func(_ *Env, a string) F1 {
				if a == "a" {
					return func(x int) string { return "A" + Itoa(x) }
				}
				return fn1.Pure[int](a + "?")
			}},
			{"double-read", func(_ *Env, a string) F1 {
				return fn1.FlatMap(fn1.Get[int](), fp.Func1[int, F1](func(x int) F1 {
					return func(y int) string { return a + Itoa(x) + Itoa(y) }
				}))
			}},
		},
	})
}
