package drv

import (
	"strconv"

	"github.com/csgura/fp"
	"github.com/csgura/fp/fn0"
	"github.com/csgura/fp/fn1"
	"github.com/csgura/fp/iterator"
	"github.com/csgura/fp/lazy"
	"github.com/csgura/fp/list"
)

// Per monad M the generated drivers use
//
//	Op<M>(e, i, v, w...)  a maker of the operand at position i: one mc choice decides between
//	                      every constructor of M (failure_i / success_i(v); [] / [v] / [v w]; ...).
//	                      A maker is called once by the library side and once by the definition
//	                      side, so single-use values (Iterator, memoizing Eval) are never shared.
//	K<M>(e, id, letter, args...)  the body of a monadic callback: logs the call, then answers by letter.
//	KL<M>                 number of callback letters.
//
// Position i fails with Env.Err(i) (Try, StateT: the private sentinel E[i] or, per the execution's
// error family, one of the library's own errors), Left(L(i)) (Either), None (Option).

func Itoa(i int) string { return strconv.Itoa(i) }

func enc(id string, args []string) string {
	s := id + "("
	for i, a := range args {
		if i > 0 {
			s += ","
		}
		s += a
	}
	return s + ")"
}

// ---- Option -------------------------------------------------------------------------------

func OpOption[T any](e *Env, i int, vs ...T) func() fp.Option[T] {
	var o fp.Option[T]
	if !e.Fail(i, "None") {
		o = fp.Some(vs[0])
	}
	return func() fp.Option[T] { return o }
}

const KLOption = 3

func KOption(e *Env, id string, letter int, args ...string) fp.Option[string] {
	e.Call(id, anys(args)...)
	switch letter {
	case 0:
		return fp.Some(enc(id, args))
	case 1:
		return fp.None[string]()
	}
	return fp.Some(args[0])
}

// ---- Try ----------------------------------------------------------------------------------

func OpTry[T any](e *Env, i int, vs ...T) func() fp.Try[T] {
	var t fp.Try[T]
	if e.Fail(i, ErrName(e.Err(i))) {
		t = FailedTry[T](e, i)
	} else {
		t = fp.Success(vs[0])
	}
	return func() fp.Try[T] { return t }
}

const KLTry = 4

func KTry(e *Env, id string, letter int, args ...string) fp.Try[string] {
	e.Call(id, anys(args)...)
	switch letter {
	case 0:
		return fp.Success(enc(id, args))
	case 1:
		return FailedTry[string](e, 0)
	case 2:
		return fp.Success(args[0])
	}
	return fp.Failure[string](e.Err2())
}

// ---- Either[string,_] ---------------------------------------------------------------------

func OpEither[T any](e *Env, i int, vs ...T) func() fp.Either[string, T] {
	var t fp.Either[string, T]
	if e.Fail(i, "L("+L(i)+")") {
		t = fp.Left[string, T](L(i))
	} else {
		t = fp.Right[string](vs[0])
	}
	return func() fp.Either[string, T] { return t }
}

const KLEither = 3

func KEither(e *Env, id string, letter int, args ...string) fp.Either[string, string] {
	e.Call(id, anys(args)...)
	switch letter {
	case 0:
		return fp.Right[string](enc(id, args))
	case 1:
		return fp.Left[string, string](L(0))
	}
	return fp.Right[string](args[0])
}

// ---- StateT[int,_] ------------------------------------------------------------------------

// The operand at position i logs its run (with the state it received), moves the state to
// 3*s+i whether it fails or not, and a string payload records the state it saw, so the order in
// which operands are run is visible in the result as well as in the log.
func OpStatet[T any](e *Env, i int, vs ...T) func() fp.StateT[int, T] {
	fail := e.Fail(i, ErrName(e.Err(i)))
	st := fp.StateT[int, T](func(s int) (fp.Try[T], int) {
		e.Call("op"+Itoa(i), s)
		if fail {
			return FailedTry[T](e, i), 3*s + i
		}
		v := vs[0]
		if sv, ok := any(v).(string); ok {
			v = any(sv + "@" + Itoa(s)).(T)
		}
		return fp.Success(v), 3*s + i
	})
	return func() fp.StateT[int, T] { return st }
}

const KLStatet = 4

func KStatet(e *Env, id string, letter int, args ...string) fp.StateT[int, string] {
	e.Call(id, anys(args)...)
	switch letter {
	case 0:
		return func(s int) (fp.Try[string], int) { return fp.Success(enc(id, args)), 5*s + 1 }
	case 1:
		return func(s int) (fp.Try[string], int) { return FailedTry[string](e, 0), 5*s + 2 }
	case 2:
		return func(s int) (fp.Try[string], int) { return fp.Success(args[0] + "@" + Itoa(s)), s }
	}
	return func(s int) (fp.Try[string], int) {
		if s%2 == 0 {
			return fp.Failure[string](e.Err2()), s + 1
		}
		return fp.Success(enc(id, args)), s + 1
	}
}

// ---- Seq ----------------------------------------------------------------------------------

func prefix[T any](e *Env, i int, vs []T) []T {
	n := e.X.Choose(len(vs)+1, "len@"+Itoa(i))
	e.Position(i, n == 0, "empty")
	return vs[:n]
}

func OpSeq[T any](e *Env, i int, vs ...T) func() fp.Seq[T] {
	p := prefix(e, i, vs)
	return func() fp.Seq[T] {
		if len(p) == 0 && i%2 == 1 {
			return nil // nil and empty are the same sequence
		}
		return append(fp.Seq[T]{}, p...)
	}
}

const KLSeq = 3

func KSeq(e *Env, id string, letter int, args ...string) fp.Seq[string] {
	e.Call(id, anys(args)...)
	switch letter {
	case 0:
		return fp.Seq[string]{enc(id, args)}
	case 1:
		return fp.Seq[string]{}
	}
	return fp.Seq[string]{enc(id, args), args[0] + "'"}
}

// ---- List ---------------------------------------------------------------------------------

// ListOf builds a list with one of the package's constructors, chosen by how.
func ListOf[T any](how int, p []T) fp.List[T] {
	switch how % 3 {
	case 0:
		return list.Of(append([]T{}, p...)...)
	case 1:
		var l fp.List[T] = list.Empty[T]()
		for k := len(p) - 1; k >= 0; k-- {
			l = list.Apply(p[k], l)
		}
		return l
	}
	return list.Generate(func(idx int) fp.Option[T] {
		if idx < len(p) {
			return fp.Some(p[idx])
		}
		return fp.None[T]()
	})
}

func OpList[T any](e *Env, i int, vs ...T) func() fp.List[T] {
	p := prefix(e, i, vs)
	return func() fp.List[T] { return ListOf(i, p) }
}

const KLList = 3

func KList(e *Env, id string, letter int, args ...string) fp.List[string] {
	e.Call(id, anys(args)...)
	switch letter {
	case 0:
		return list.Of(enc(id, args))
	case 1:
		return list.Empty[string]()
	}
	return ListOf(1, []string{enc(id, args), args[0] + "'"})
}

// ---- Iterator -----------------------------------------------------------------------------

// IterOf is a fresh single-use iterator whose pulls count against the tick budget.
func IterOf[T any](e *Env, p []T) fp.Iterator[T] {
	k := 0
	return fp.MakeIterator(func() bool {
		e.X.Tick()
		return k < len(p)
	}, func() T {
		e.X.Tick()
		if k >= len(p) {
			panic("next on empty iterator")
		}
		k++
		return p[k-1]
	})
}

func OpIterator[T any](e *Env, i int, vs ...T) func() fp.Iterator[T] {
	p := prefix(e, i, vs)
	return func() fp.Iterator[T] {
		if len(p) == 0 && i%2 == 1 {
			return fp.Iterator[T]{} // the zero value is the empty iterator
		}
		return IterOf(e, p)
	}
}

// NestedIterator is an iterator of 0..2 fresh inner iterators.
func NestedIterator(e *Env) func() fp.Iterator[fp.Iterator[string]] {
	in2 := OpIterator(e, 2, "v2", "w2")
	in3 := OpIterator(e, 3, "v3", "w3")
	n := e.X.Choose(3, "len@1")
	e.Position(1, n == 0, "empty")
	return func() fp.Iterator[fp.Iterator[string]] {
		return IterOf(e, []fp.Iterator[string]{in2(), in3()}[:n])
	}
}

const KLIterator = 3

func KIterator(e *Env, id string, letter int, args ...string) fp.Iterator[string] {
	e.Call(id, anys(args)...)
	switch letter {
	case 0:
		return IterOf(e, []string{enc(id, args)})
	case 1:
		return IterOf(e, []string{})
	}
	return IterOf(e, []string{enc(id, args), args[0] + "'"})
}

// ---- lazy.Eval ----------------------------------------------------------------------------

func OpEval[T any](e *Env, i int, vs ...T) func() lazy.Eval[T] {
	how := e.X.Choose(4, "ctor@"+Itoa(i))
	e.Position(i, false, "")
	return func() lazy.Eval[T] {
		switch how {
		case 3:
			// the zero value is a legal Eval (Resume documents it): it evaluates to the zero T
			return lazy.Eval[T]{}
		case 0:
			return lazy.Done(vs[0])
		case 1:
			return lazy.Call(func() T { e.Call("op" + Itoa(i)); return vs[0] })
		}
		return lazy.TailCall(func() lazy.Eval[T] { e.Call("op" + Itoa(i)); return lazy.Done(vs[0]) })
	}
}

const KLEval = 4

func KEval(e *Env, id string, letter int, args ...string) lazy.Eval[string] {
	e.Call(id, anys(args)...)
	switch letter {
	case 0:
		return lazy.Done(enc(id, args))
	case 1:
		return lazy.Call(func() string { return enc(id, args) })
	case 3:
		return lazy.Eval[string]{}
	}
	return lazy.TailCall(func() lazy.Eval[string] {
		return lazy.Done(args[0]).Map(func(s string) string { return s + "'" })
	})
}

// ---- fn0 ----------------------------------------------------------------------------------

func OpFn0[T any](e *Env, i int, vs ...T) func() fp.Func0[T] {
	how := e.X.Choose(2, "ctor@"+Itoa(i))
	e.Position(i, false, "")
	return func() fp.Func0[T] {
		if how == 0 {
			return fn0.Pure(vs[0])
		}
		return func(fp.Unit) T { e.Call("op" + Itoa(i)); return vs[0] }
	}
}

const KLFn0 = 2

func KFn0(e *Env, id string, letter int, args ...string) fp.Func0[string] {
	e.Call(id, anys(args)...)
	if letter == 0 {
		return fn0.Pure(enc(id, args))
	}
	return func(fp.Unit) string { e.Call(id + ".run"); return args[0] + "'" }
}

// ---- fn1[int,_] ---------------------------------------------------------------------------

func OpFn1[T any](e *Env, i int, vs ...T) func() fp.Func1[int, T] {
	how := e.X.Choose(2, "ctor@"+Itoa(i))
	e.Position(i, false, "")
	return func() fp.Func1[int, T] {
		if how == 0 {
			return fn1.Pure[int](vs[0])
		}
		return func(x int) T {
			e.Call("op"+Itoa(i), x)
			v := vs[0]
			if sv, ok := any(v).(string); ok {
				v = any(sv + "@" + Itoa(x)).(T)
			}
			return v
		}
	}
}

const KLFn1 = 2

func KFn1(e *Env, id string, letter int, args ...string) fp.Func1[int, string] {
	e.Call(id, anys(args)...)
	if letter == 0 {
		return fn1.Pure[int](enc(id, args))
	}
	return func(x int) string { return args[0] + "@" + Itoa(x) }
}

func anys(ss []string) []any {
	out := make([]any, len(ss))
	for i, s := range ss {
		out[i] = s
	}
	return out
}

// MapSlice is the plain-loop image of a slice (used by the definitions of MapSeqLift etc.).
func MapSlice[A, B any](s []A, f func(A) B) []B {
	out := make([]B, 0, len(s))
	for _, a := range s {
		out = append(out, f(a))
	}
	return out
}

// Elems picks a slice of 0..max (thorough: max+1) distinct elements x1..xn and, for each, whether the traverse
// function fails on it (position i+base). tokens gives the failure token of position i.
func Elems(e *Env, max, base int, token func(i int) string) (xs []string, failAt map[string]int) {
	if e.X.Thorough() {
		max++
	}
	n := e.Size("elems", max)
	failAt = map[string]int{}
	for i := 1; i <= n; i++ {
		x := "x" + Itoa(i)
		xs = append(xs, x)
		if e.Fail(base+i, token(base+i)) {
			failAt[x] = base + i
		}
	}
	return
}

func TokTry(i int) string    { return ErrName(cur.Err(i)) }
func TokOption(i int) string { return "None" }
func TokEither(i int) string { return "L(" + L(i) + ")" }
func TokStatet(i int) string { return ErrName(cur.Err(i)) }

// Pred is a logged predicate chosen from {always, never, is x1}.
func Pred(e *Env, id string) func(string) bool {
	l := e.Letter(id, 3)
	return func(s string) bool {
		e.Call(id, s)
		switch l {
		case 0:
			return true
		case 1:
			return false
		}
		return s == "x1"
	}
}

// Fail<M> is the answer of a traverse/fold function on an element chosen to fail: it logs the
// call and fails like the operand at position i would.
func FailOption[T any](e *Env, id string, i int, args ...string) fp.Option[T] {
	e.Call(id, anys(args)...)
	return fp.None[T]()
}

func FailTry[T any](e *Env, id string, i int, args ...string) fp.Try[T] {
	e.Call(id, anys(args)...)
	return FailedTry[T](e, i)
}

func FailEither[T any](e *Env, id string, i int, args ...string) fp.Either[string, T] {
	e.Call(id, anys(args)...)
	return fp.Left[string, T](L(i))
}

func FailStatet[T any](e *Env, id string, i int, args ...string) fp.StateT[int, T] {
	e.Call(id, anys(args)...)
	return func(s int) (fp.Try[T], int) { return FailedTry[T](e, i), 3*s + i }
}

// ---- try transformers ------------------------------------------------------------------------

// SeqTOperand is a Try[Seq[string]] at position 1: Failure(E[1]) or Success of a fresh copy of
// the first n of x2, x1, x3 (n in 0..3; out of order so that Sort/Min/Max have work to do).
func SeqTOperand(e *Env) func() fp.Try[fp.Seq[string]] {
	fail := e.Fail(1, ErrName(e.Err(1)))
	n := e.Size("elems", 3)
	e.seqT = []string{"x2", "x1", "x3"}[:n]
	return func() fp.Try[fp.Seq[string]] {
		if fail {
			return FailedTry[fp.Seq[string]](e, 1)
		}
		return fp.Success(append(fp.Seq[string]{}, e.seqT...))
	}
}

// SeqTFunc is the element function of TraverseSeqT/FlatMapSeqT: position base+k is the k-th
// element; it fails with E[base+k] when chosen to.
func SeqTFunc(e *Env, base int) func(string) fp.Try[string] {
	failAt := map[string]int{}
	for k, x := range e.seqT {
		if e.Fail(base+k+1, ErrName(e.Err(base+k+1))) {
			failAt[x] = base + k + 1
		}
	}
	return func(a string) fp.Try[string] {
		if i, bad := failAt[a]; bad {
			return FailTry[string](e, "fa", i, a)
		}
		return KTry(e, "fa", 0, a)
	}
}

// OptionTOperand is a Try[Option[string]] at position 1: Failure(E[1]), Success(None), Success(Some(x1)).
func OptionTOperand(e *Env) func() fp.Try[fp.Option[string]] {
	fail := e.Fail(1, ErrName(e.Err(1)))
	some := e.X.Choose(2, "some") == 1
	return func() fp.Try[fp.Option[string]] {
		if fail {
			return FailedTry[fp.Option[string]](e, 1)
		}
		if some {
			return fp.Success(fp.Some("x1"))
		}
		return fp.Success(fp.None[string]())
	}
}

func FlatMapSlice[A, B any, S ~[]B](s []A, f func(A) S) []B {
	out := []B{}
	for _, a := range s {
		out = append(out, f(a)...)
	}
	return out
}

func MapOpt[A, B any](o fp.Option[A], f func(A) B) fp.Option[B] {
	if o.IsDefined() {
		return fp.Some(f(o.Get()))
	}
	return fp.None[B]()
}

func FlatMapOpt[A, B any](o fp.Option[A], f func(A) fp.Option[B]) fp.Option[B] {
	if o.IsDefined() {
		return f(o.Get())
	}
	return fp.None[B]()
}

func AltOption(l int) fp.Option[string] {
	if l == 0 {
		return fp.None[string]()
	}
	return fp.Some("alt")
}

func AltPtr(l int) *string {
	if l == 0 {
		return nil
	}
	s := "alt"
	return &s
}

// ---- instrumented sources ------------------------------------------------------------------

// SourceKinds is the number of ways Source builds an iterator.
const SourceKinds = 3

// Source is a fresh single-use iterator over xs whose every HasNext/Next is a logged callback
// (the source of a fold/traverse is upstream user code: after the first failing element none of
// it may run). kind 0: the logged iterator itself; kind 1: a logged iterator that also yields
// rejected elements (one before every element of xs and two after the last), behind
// Iterator.Filter with a logged predicate; kind 2: the same behind iterator.FilterMap with a
// logged function. With kinds 1 and 2 a consumer that asks HasNext once too often makes the
// predicate run on later elements.
func Source[T any](e *Env, kind int, xs []T) fp.Iterator[T] {
	type item struct {
		v    T
		keep bool
		name string
	}
	var items []item
	if kind == 0 {
		for k, x := range xs {
			items = append(items, item{x, true, "#" + Itoa(k+1)})
		}
	} else {
		var zero T
		for k, x := range xs {
			items = append(items, item{x, false, "junk-before#" + Itoa(k+1)}, item{x, true, "#" + Itoa(k+1)})
		}
		items = append(items, item{zero, false, "junk-last1"}, item{zero, false, "junk-last2"})
	}
	k := 0
	last := -1 // index of the item handed out last
	base := fp.MakeIterator(func() bool {
		e.Call("src.hasNext")
		return k < len(items)
	}, func() T {
		if k >= len(items) {
			e.Call("src.next", "exhausted")
			panic("next on empty iterator")
		}
		e.Call("src.next", items[k].name)
		last = k
		k++
		return items[last].v
	})
	switch kind {
	case 1:
		return base.Filter(func(T) bool {
			e.Call("src.pred", items[last].name)
			return items[last].keep
		})
	case 2:
		return iterator.FilterMap(base, func(v T) fp.Option[T] {
			e.Call("src.fn", items[last].name)
			if items[last].keep {
				return fp.Some(v)
			}
			return fp.None[T]()
		})
	}
	return base
}

// Drain pulls a source to its end (the eager definition of the StateT folds, which build the
// whole action before anything runs).
func Drain[T any](it fp.Iterator[T]) []T {
	out := []T{}
	for it.HasNext() {
		out = append(out, it.Next())
	}
	return out
}
