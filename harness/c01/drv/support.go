// Package drv holds the drivers shared by the C01 (derived combinator = its definition, monad
// laws) and C02 (short circuit, call logs) checks: hand-written support (this file, monads.go,
// laws.go, register.go) and the generated per-(monad, combinator, arity) drivers
// (zz_generated.go, written by ../gen).
//
// One execution = one Env. A generated driver picks its operands and callback letters through
// the Env (every pick is an mc choice), then hands two closures to Env.Compare: the library call
// and the combinator's definition written with only the package's FlatMap and Pure. Both are
// evaluated with the same instrumented callbacks but separate call logs.
package drv

import (
	"errors"
	"fmt"
	"reflect"
	"sort"
	"strconv"
	"strings"

	"github.com/csgura/fp"
	"github.com/csgura/fp/option"
	"github.com/csgura/fp/try"
	"verif/mc"
)

// ---------------------------------------------------------------------------------------------
// sentinel failures

type sentinel struct{ name string }

func (s *sentinel) Error() string { return s.name }

// E[i] is the failure of operand position i (E[0] is the callbacks' own failure "ek").
var E = func() []error {
	out := make([]error, 16)
	for i := range out {
		out[i] = &sentinel{fmt.Sprintf("e%d", i)}
	}
	out[0] = &sentinel{"ek"}
	return out
}()

// EK2 is a second callback failure (the "fails with a different error" letter).
var EK2 error = &sentinel{"ek2"}

// The library's own errors. Operands and callbacks fail not only with the private sentinels
// E[i] but also with the error values the packages under test produce themselves: a combinator
// that treats one of them specially (compares with ==, errors.Is, code or text) would turn a
// failing operand into something else, and the property demands the operand's own error value,
// whatever it is.
var (
	// LookalikeOptionEmpty is a distinct value with the code and text of fp.ErrOptionEmpty.
	LookalikeOptionEmpty = fp.Error(404, "Option.empty")
	// WrappedOptionEmpty wraps the sentinel (errors.Is finds it, == does not).
	WrappedOptionEmpty = fmt.Errorf("lookup failed: %w", fp.ErrOptionEmpty)
)

// LibErr is one way a position can fail with a library error.
type LibErr struct {
	Name string
	Err  error
	// ViaFromOption: the failing Try is built by try.FromOption(option.None()) (the way
	// FromOption/FromPtr/PtrN/ApOption produce the sentinel) instead of try.Failure(Err).
	ViaFromOption bool
}

// LibErrs is the alphabet of library errors.
var LibErrs = []LibErr{
	{"ErrOptionEmpty", fp.ErrOptionEmpty, false},
	{"FromOption(None)", fp.ErrOptionEmpty, true},
	{"ErrTryNotFailed", fp.ErrTryNotFailed, false},
	{"ErrFutureNotFailed", fp.ErrFutureNotFailed, false},
	{"lookalike(ErrOptionEmpty)", LookalikeOptionEmpty, false},
	{"wrapped(ErrOptionEmpty)", WrappedOptionEmpty, false},
}

// errFamily picks (once per execution, at the first error-carrying position built) how the
// positions of this execution fail: 0 = the private sentinels E[i]; k >= 1 = position i (0 =
// the callbacks' own failure) fails with LibErrs[(i+k-1) mod len]. Over all k every position
// fails with every library error, in particular the first failing one with fp.ErrOptionEmpty,
// while neighbouring positions carry different errors.
func (e *Env) errFamily() int {
	if e.family < 0 {
		e.family = e.X.Choose(len(LibErrs)+1, "error-family")
		if e.family > 0 {
			e.letters = append(e.letters, "errors=library+"+strconv.Itoa(e.family-1))
		}
	}
	return e.family
}

func (e *Env) libErr(i int) (LibErr, bool) {
	k := e.errFamily()
	if k == 0 {
		return LibErr{}, false
	}
	return LibErrs[(i+k-1)%len(LibErrs)], true
}

// Err is the error position i fails with in this execution.
func (e *Env) Err(i int) error {
	if le, ok := e.libErr(i); ok {
		return le.Err
	}
	return E[i]
}

// Err2 is the callbacks' second failure (the "fails with a different error" letter).
func (e *Env) Err2() error {
	if le, ok := e.libErr(len(LibErrs) / 2); ok {
		return le.Err
	}
	return EK2
}

// FailedTry is the failing Try of position i, built the way the execution's error family says.
func FailedTry[T any](e *Env, i int) fp.Try[T] {
	if le, ok := e.libErr(i); ok && le.ViaFromOption {
		return try.FromOption(option.None[T]())
	}
	return fp.Failure[T](e.Err(i))
}

// ErrName gives the canonical name of an error *by identity*: a wrapped or re-created error
// does not get the sentinel's name.
func ErrName(err error) string {
	if err == nil {
		return "<nil>"
	}
	if s, ok := err.(*sentinel); ok {
		for _, k := range E {
			if k == err {
				return s.name
			}
		}
		if err == EK2 {
			return s.name
		}
		return "?copy-of-" + s.name
	}
	if err == fp.ErrOptionEmpty {
		return "ErrOptionEmpty"
	}
	if err == fp.ErrTryNotFailed {
		return "ErrTryNotFailed"
	}
	if err == fp.ErrFutureNotFailed {
		return "ErrFutureNotFailed"
	}
	if err == LookalikeOptionEmpty {
		return "lookalike(ErrOptionEmpty)"
	}
	if err == WrappedOptionEmpty {
		return "wrapped(ErrOptionEmpty)"
	}
	return fmt.Sprintf("?%T(%v)", err, firstLine(err.Error()))
}

func firstLine(s string) string {
	if i := strings.IndexByte(s, '\n'); i >= 0 {
		s = s[:i]
	}
	if len(s) > 80 {
		s = s[:80]
	}
	return s
}

// L(i) is the Left value of operand position i for Either[string,_].
func L(i int) string {
	if i == 0 {
		return "lk"
	}
	return "l" + strconv.Itoa(i)
}

// ---------------------------------------------------------------------------------------------
// Env

// Env is the state of one execution.
type Env struct {
	X    *mc.X
	Prop string // "C01" or "C02"
	Name string // combinator under test, e.g. "try.Map3"
	// FailMonad: the operands are Option/Try/Either/StateT values, so the C02 first-failure and
	// call-log oracles apply.
	FailMonad bool
	// NoFirstFailure switches the positional first-failure oracle off (compositions, where a
	// failing callback may precede a failing operand); the call-log oracle still applies.
	NoFirstFailure bool

	log     *[]string
	implLog []string
	refLog  []string
	pos     []string // failure token per declared position, "" = success
	posName []string
	posIdx  []int
	letters []string
	family  int      // error family of this execution (-1 = not chosen yet)
	seqT    []string // elements of the SeqT operand of this execution

	// viewBase is a small array allocated anew for every evaluated side (eval resets it); the
	// "views" callback returns sub-slices of it, i.e. results with spare capacity that alias each
	// other, as Seq.Take/Init or s[:i] produce them.
	viewBase []string
}

// Views returns base[:n] of this evaluation's shared array {"p","q","r"}.
func (e *Env) Views(n int) []string {
	if e.viewBase == nil {
		e.viewBase = []string{"p", "q", "r"}
	}
	return e.viewBase[:n]
}

var cur *Env

// Cur is the Env of the running execution (workers are single threaded).
func Cur() *Env { return cur }

func NewEnv(x *mc.X, prop, name string, failMonad bool) *Env {
	e := &Env{X: x, Prop: prop, Name: name, FailMonad: failMonad, family: -1}
	e.log = &e.implLog
	cur = e
	return e
}

// Call records one invocation of a user callback (and counts it against the tick budget).
func (e *Env) Call(id string, args ...any) {
	e.X.Tick()
	var b strings.Builder
	b.WriteString(id)
	b.WriteByte('(')
	for i, a := range args {
		if i > 0 {
			b.WriteByte(',')
		}
		switch v := a.(type) {
		case string:
			b.WriteString(v)
		case int:
			b.WriteString(strconv.Itoa(v))
		default:
			b.WriteString(Show(a))
		}
	}
	b.WriteByte(')')
	*e.log = append(*e.log, b.String())
}

// Pure is the body of every pure N-ary callback: logs the call and returns an injective
// encoding of its arguments.
func (e *Env) Pure(id string, args ...string) string {
	e.X.Tick()
	s := id + "(" + strings.Join(args, ",") + ")"
	*e.log = append(*e.log, s)
	return s
}

// Fail decides (one binary choice) whether the operand at position i fails and records the
// position with its failure token.
func (e *Env) Fail(i int, token string) bool {
	f := e.X.Choose(2, "fail@"+strconv.Itoa(i)) == 1
	e.Position(i, f, token)
	return f
}

// Position declares a failure position without making a choice.
func (e *Env) Position(i int, fails bool, token string) {
	t := ""
	if fails {
		t = token
	}
	// keep the positions ordered by their index (operands may be built inner-first)
	k := len(e.pos)
	for k > 0 && e.posIdx[k-1] > i {
		k--
	}
	e.pos = append(e.pos[:k], append([]string{t}, e.pos[k:]...)...)
	e.posName = append(e.posName[:k], append([]string{strconv.Itoa(i)}, e.posName[k:]...)...)
	e.posIdx = append(e.posIdx[:k], append([]int{i}, e.posIdx[k:]...)...)
}

// Letter picks a callback letter.
func (e *Env) Letter(id string, n int) int {
	l := e.X.Choose(n, "letter:"+id)
	e.letters = append(e.letters, id+"="+strconv.Itoa(l))
	return l
}

// Size picks a collection size in [0,n].
func (e *Env) Size(id string, n int) int { return e.X.Choose(n+1, "size:"+id) }

// Kinds picks the builder method used at each of n stages out of k kinds: every vector when
// k^n is small, otherwise the vectors kind_i = (b + d*i) mod k for every base b and stride d in {0,1}.
func (e *Env) Kinds(n, k int) []int {
	full := 3
	if e.X.Thorough() {
		full = 4
	}
	out := make([]int, n)
	if n <= full {
		for i := range out {
			out[i] = e.X.Choose(k, "kind@"+strconv.Itoa(i+1))
		}
		return out
	}
	b := e.X.Choose(k, "kind-base")
	d := e.X.Choose(2, "kind-stride")
	for i := range out {
		out[i] = (b + d*i) % k
	}
	return out
}

func (e *Env) firstFail() (int, string) {
	for i, t := range e.pos {
		if t != "" {
			return i, t
		}
	}
	return -1, ""
}

type outcome struct {
	s     string
	tops  []string
	panic any
}

func (e *Env) eval(f func() any, log *[]string) outcome {
	e.log = log
	e.viewBase = nil
	var o outcome
	o.panic = mc.Catch(func() {
		r := renderer{}
		o.s = r.show(reflect.ValueOf(f()), true)
		o.tops = r.tops
	})
	if o.panic != nil {
		o.s = "panic: " + firstLine(fmt.Sprint(o.panic))
		o.tops = nil
	}
	return o
}

// Compare evaluates the library call and the definition and applies the oracle of the
// property being checked.
//
// alts are further admissible definitions (Iterator only: an operand mentioned under a
// continuation may be read as the single-use object bound once, or as the sequence it denotes,
// rebuilt at every mention; the statement does not choose, a result equal to either is accepted).
func (e *Env) Compare(impl, ref func() any, alts ...func() any) {
	x := e.X
	got := e.eval(impl, &e.implLog)
	want := e.eval(ref, &e.refLog)
	for _, alt := range alts {
		if got.s == want.s {
			break
		}
		var altLog []string
		if w := e.eval(alt, &altLog); w.s == got.s {
			want, e.refLog = w, altLog
		}
	}
	e.log = &e.implLog
	ff, tok := e.firstFail()
	x.Logf("%s positions=%v letters=%v", e.Name, e.pos, e.letters)
	x.Logf("  library    -> %s   calls %v", got.s, e.implLog)
	x.Logf("  definition -> %s   calls %v", want.s, e.refLog)
	desc := func() string {
		return fmt.Sprintf("%s with failing positions %s, callbacks %v:\n library:    %s\n   calls: %v\n definition: %s\n   calls: %v",
			e.Name, e.posDesc(), e.letters, got.s, e.implLog, want.s, e.refLog)
	}
	if got.panic != nil && want.panic == nil {
		x.Fail("panic", "%s panicked where its definition returns a value\n%s", e.Name, desc())
	}
	switch e.Prop {
	case "C01":
		if got.s != want.s {
			x.Fail("result-differs", "%s does not return what its definition (FlatMap/Pure only) returns\n%s", e.Name, desc())
		}
	case "C02":
		if e.FailMonad && !e.NoFirstFailure && ff >= 0 {
			if len(got.tops) == 0 {
				x.Fail("first-failure", "position %s fails (%s) but the result is not a failure\n%s", e.posName[ff], tok, desc())
			}
			for _, t := range got.tops {
				if t != tok {
					x.Fail("first-failure", "the first failing position is %s (%s) but the result carries %q\n%s", e.posName[ff], tok, t, desc())
				}
			}
		}
		if k := diffLogs(e.implLog, e.refLog, ff >= 0); k != "" {
			x.Fail(k, "the callbacks invoked by %s differ from those of its definition\n%s", e.Name, desc())
		}
	}
	x.Tag(e.Name)
	if ff >= 0 {
		x.NonTrivial()
		x.Tag("first-failure@" + e.posName[ff])
	} else {
		x.Tag("no-failure")
	}
	for i, t := range e.pos {
		if t != "" {
			x.Tag("failure@" + e.posName[i])
		}
	}
	x.Observe(got.s, len(e.implLog))
}

func (e *Env) posDesc() string {
	var s []string
	for i, t := range e.pos {
		if t != "" {
			s = append(s, e.posName[i]+":"+t)
		}
	}
	if len(s) == 0 {
		return "{}"
	}
	return "{" + strings.Join(s, " ") + "}"
}

// diffLogs classifies the difference between the library's call log and the definition's.
func diffLogs(impl, ref []string, failed bool) string {
	if len(impl) == len(ref) {
		same := true
		for i := range impl {
			if impl[i] != ref[i] {
				same = false
				break
			}
		}
		if same {
			return ""
		}
	}
	a := append([]string(nil), impl...)
	b := append([]string(nil), ref...)
	sort.Strings(a)
	sort.Strings(b)
	if strings.Join(a, ";") == strings.Join(b, ";") {
		return "call-order"
	}
	// is ref a sub-multiset of impl (extra calls only) or the converse?
	sub := func(small, big []string) bool {
		j := 0
		for _, s := range small {
			for j < len(big) && big[j] < s {
				j++
			}
			if j >= len(big) || big[j] != s {
				return false
			}
			j++
		}
		return true
	}
	switch {
	case sub(b, a):
		if failed {
			// which calls are extra: only source pulls/predicates, or user functions as well
			rest := append([]string(nil), a...)
			for _, s := range b {
				for j, r := range rest {
					if r == s {
						rest = append(rest[:j], rest[j+1:]...)
						break
					}
				}
			}
			onlySource := true
			for _, r := range rest {
				if !strings.HasPrefix(r, "src.") {
					onlySource = false
				}
			}
			if onlySource {
				return "source-calls-after-failure"
			}
			return "calls-after-failure"
		}
		return "extra-calls"
	case sub(a, b):
		return "missing-calls"
	}
	return "calls-differ"
}

// Equal is the oracle of the law scenarios (C01 only): both sides rendered structurally.
func (e *Env) Equal(key string, lhs, rhs func() any, what string) {
	x := e.X
	l := e.eval(lhs, &e.implLog)
	r := e.eval(rhs, &e.refLog)
	x.Logf("%s: %s\n  lhs -> %s\n  rhs -> %s", e.Name, what, l.s, r.s)
	if l.s != r.s {
		x.Fail(key, "%s: %s\n lhs: %s\n rhs: %s", e.Name, what, l.s, r.s)
	}
	x.Tag(e.Name)
	x.Observe(l.s)
}

// ---------------------------------------------------------------------------------------------
// structural rendering

// Pair carries the two results of UnZip.
type Pair struct{ A, B any }

// Show renders a value structurally: Try by success flag, value and error identity; Option,
// Either by constructor and value; Iterator and List by their drained elements; Eval by Get;
// state functions (StateT, fn1) by their results on every initial state 0,1,2; fn0 by its value.
func Show(v any) string {
	r := renderer{}
	return r.show(reflect.ValueOf(v), false)
}

type renderer struct{ tops []string }

var (
	errorType = reflect.TypeOf((*error)(nil)).Elem()
	unitType  = reflect.TypeOf(fp.Unit{})
	intType   = reflect.TypeOf(0)
	pairType  = reflect.TypeOf(Pair{})
)

const fpPath = "github.com/csgura/fp"

// States are the initial states every state function is run on.
var States = []int{0, 1, 2}

func (r *renderer) top(on bool, tok string) {
	if on {
		r.tops = append(r.tops, tok)
	}
}

type vkind int

const (
	kPlain vkind = iota
	kPair
	kErr
	kList
	kTry
	kOption
	kLeft
	kRight
	kIterator
	kUnit
	kEval
)

var kindCache = map[reflect.Type]vkind{}

func classify(t reflect.Type) vkind {
	if k, ok := kindCache[t]; ok {
		return k
	}
	k := kPlain
	name := t.Name()
	switch {
	case t == pairType:
		k = kPair
	case t.Kind() != reflect.Interface && t.Kind() != reflect.Struct && t.Implements(errorType):
		k = kErr
	case t.Kind() == reflect.Struct && t.PkgPath() == fpPath && strings.HasPrefix(name, "Try["):
		k = kTry
	case t.Kind() == reflect.Struct && t.PkgPath() == fpPath && strings.HasPrefix(name, "Option["):
		k = kOption
	case t.Kind() == reflect.Struct && t.PkgPath() == fpPath && strings.HasPrefix(name, "left["):
		k = kLeft
	case t.Kind() == reflect.Struct && t.PkgPath() == fpPath && strings.HasPrefix(name, "right["):
		k = kRight
	case t.Kind() == reflect.Struct && t.PkgPath() == fpPath && strings.HasPrefix(name, "Iterator["):
		k = kIterator
	case t == unitType:
		k = kUnit
	case t.Kind() == reflect.Struct && t.PkgPath() == fpPath+"/lazy" && strings.HasPrefix(name, "Eval["):
		k = kEval
	case t.Kind() != reflect.Interface:
		// any implementation of fp.List: Tail() returns the List interface
		if m, ok := t.MethodByName("Tail"); ok && m.Type.NumOut() == 1 && m.Type.Out(0).Kind() == reflect.Interface {
			if _, ok := t.MethodByName("Unapply"); ok {
				k = kList
			}
		}
	}
	kindCache[t] = k
	return k
}

func (r *renderer) show(v reflect.Value, top bool) string {
	if !v.IsValid() {
		return "nil"
	}
	t := v.Type()
	if t.Kind() == reflect.Interface {
		if v.IsNil() {
			if t == errorType {
				r.top(top, "")
				return "err:<nil>"
			}
			return "nil"
		}
		return r.show(v.Elem(), top)
	}
	k := classify(t)
	if k != kPlain && !v.CanInterface() {
		panic(mc.InternalError{Msg: "Show: monadic value inside an unexported field: " + t.String()})
	}
	switch k {
	case kPair:
		p := v.Interface().(Pair)
		return "<" + r.show(reflect.ValueOf(p.A), top) + " | " + r.show(reflect.ValueOf(p.B), top) + ">"
	case kErr:
		if (v.Kind() == reflect.Pointer || v.Kind() == reflect.Func || v.Kind() == reflect.Map) && v.IsNil() {
			r.top(top, "")
			return "err:<nil>"
		}
		n := ErrName(v.Interface().(error))
		r.top(top, n)
		return "err:" + n
	case kList:
		return r.showList(v)
	case kTry:
		if call0(v, "IsSuccess").Bool() {
			r.top(top, "")
			return "S(" + r.show(call0(v, "Get"), false) + ")"
		}
		var n string
		if p := mc.Catch(func() { n = ErrName(call0(call0(v, "Failed"), "Get").Interface().(error)) }); p != nil {
			n = "!uninitialized"
		}
		r.top(top, n)
		return "F(" + n + ")"
	case kOption:
		if call0(v, "IsDefined").Bool() {
			r.top(top, "")
			return "Some(" + r.show(call0(v, "Get"), false) + ")"
		}
		r.top(top, "None")
		return "None"
	case kLeft:
		s := "L(" + r.show(call0(v, "Left"), false) + ")"
		r.top(top, s)
		return s
	case kRight:
		r.top(top, "")
		return "R(" + r.show(call0(v, "Get"), false) + ")"
	case kIterator:
		has, next := v.MethodByName("HasNext"), v.MethodByName("Next")
		var b strings.Builder
		b.WriteString("[")
		for n := 0; has.Call(nil)[0].Bool(); n++ {
			cur.X.Tick()
			if n > 0 {
				b.WriteByte(' ')
			}
			b.WriteString(r.show(next.Call(nil)[0], false))
		}
		b.WriteByte(']')
		return b.String()
	case kUnit:
		return "()"
	case kEval:
		return "Ev(" + r.show(call0(v, "Get"), false) + ")"
	}
	switch t.Kind() {
	case reflect.String:
		return v.String()
	case reflect.Int, reflect.Int64, reflect.Int32:
		return strconv.FormatInt(v.Int(), 10)
	case reflect.Bool:
		return strconv.FormatBool(v.Bool())
	case reflect.Pointer:
		if v.IsNil() {
			return "nil"
		}
		return "&" + r.show(v.Elem(), false)
	case reflect.Slice, reflect.Array:
		var b strings.Builder
		b.WriteByte('[')
		for i := 0; i < v.Len(); i++ {
			if i > 0 {
				b.WriteByte(' ')
			}
			b.WriteString(r.show(v.Index(i), false))
		}
		b.WriteByte(']')
		return b.String()
	case reflect.Func:
		return r.showFunc(v, top)
	case reflect.Struct:
		// plain struct (tuples, hlist.Cons, hlist.Nil): field by field; unexported fields of
		// basic kinds are read without Interface().
		var b strings.Builder
		b.WriteByte('(')
		for i := 0; i < v.NumField(); i++ {
			if i > 0 {
				b.WriteByte(',')
			}
			b.WriteString(r.show(v.Field(i), false))
		}
		b.WriteByte(')')
		return b.String()
	}
	panic(mc.InternalError{Msg: "Show: unsupported type " + t.String()})
}

func (r *renderer) showFunc(v reflect.Value, top bool) string {
	t := v.Type()
	if v.IsNil() {
		return "nilfunc"
	}
	if t.NumIn() == 1 && t.In(0) == unitType && t.NumOut() == 1 {
		out := v.Call([]reflect.Value{reflect.ValueOf(fp.Unit{})})
		return "fn0(" + r.show(out[0], false) + ")"
	}
	if t.NumIn() == 1 && t.In(0) == intType && (t.NumOut() == 1 || t.NumOut() == 2) {
		var b strings.Builder
		b.WriteByte('{')
		for i, s := range States {
			if i > 0 {
				b.WriteByte(' ')
			}
			cur.Call("run", s)
			out := v.Call([]reflect.Value{reflect.ValueOf(s)})
			b.WriteString(strconv.Itoa(s))
			b.WriteString("->")
			if len(out) == 2 {
				b.WriteString("(" + r.show(out[0], top) + "," + r.show(out[1], false) + ")")
			} else {
				b.WriteString(r.show(out[0], false))
			}
		}
		b.WriteByte('}')
		return b.String()
	}
	panic(mc.InternalError{Msg: "Show: a driver returned an unapplied function " + t.String()})
}

func call0(v reflect.Value, name string) reflect.Value {
	return v.MethodByName(name).Call(nil)[0]
}

func (r *renderer) showList(v reflect.Value) string {
	var b strings.Builder
	b.WriteString("[")
	l := v
	for n := 0; ; n++ {
		cur.X.Tick()
		if l.Kind() == reflect.Interface {
			l = l.Elem()
		}
		if call0(l, "IsEmpty").Bool() {
			break
		}
		if n > 0 {
			b.WriteByte(' ')
		}
		b.WriteString(r.show(call0(l, "Head"), false))
		l = call0(l, "Tail")
	}
	b.WriteByte(']')
	return b.String()
}

// ShowH renders an hlist (head first) the way the reference renders the list of earlier values.
func ShowH(v any) string { return Show(v) }

// HRef renders earlier values (oldest first) like ShowH renders hlist.Cons[latest, ...].
func HRef(vals ...string) string {
	s := "()"
	for _, v := range vals {
		s = "(" + v + "," + s + ")"
	}
	return s
}

var _ = errors.Is
