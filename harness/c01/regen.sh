#!/bin/bash
# Regenerates the C01/C02 driver packages (drv/g_*/zz_generated.go, cat/zz_generated.go) from the
# tables in gen/. The output is committed: it depends on the tree only through "which of the
# catalogued functions does each package export" (rules for functions a package lacks are skipped);
# members that appear later are listed by the run-time completeness report (evidence key `uncovered`).
set -e
cd "$(dirname "$0")/../.."
export GOFLAGS=-mod=mod GOPROXY=off GOSUMDB=off GOTOOLCHAIN=local
go run ./harness/c01/gen -repo "${VERIF_REPO:-/repo}" -out harness/c01
