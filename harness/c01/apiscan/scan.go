// Package apiscan lists the exported functions and methods of packages of the tree under test
// (go/parser only; used by the driver generator to decide which rules apply to which package
// and by the completeness report to list exported members no rule covers).
package apiscan

import (
	"go/ast"
	"go/parser"
	"go/token"
	"os"
	"path/filepath"
	"sort"
	"strings"
)

// Packages are the monad packages of C01/C02, relative to the repository root.
var Packages = []string{"option", "try", "either", "seq", "list", "iterator", "lazy", "statet", "fn0", "fn1"}

// Scan returns, per package directory, the sorted names of exported functions ("Map2") and
// exported methods of exported types ("MonadChain3.ApTry"). Test files are skipped.
func Scan(repo string, pkgs []string) (map[string][]string, error) {
	out := map[string][]string{}
	for _, p := range pkgs {
		dir := filepath.Join(repo, p)
		ents, err := os.ReadDir(dir)
		if err != nil {
			return nil, err
		}
		seen := map[string]bool{}
		fset := token.NewFileSet()
		for _, ent := range ents {
			n := ent.Name()
			if ent.IsDir() || !strings.HasSuffix(n, ".go") || strings.HasSuffix(n, "_test.go") {
				continue
			}
			f, err := parser.ParseFile(fset, filepath.Join(dir, n), nil, parser.SkipObjectResolution)
			if err != nil {
				return nil, err
			}
			for _, d := range f.Decls {
				fd, ok := d.(*ast.FuncDecl)
				if !ok || !fd.Name.IsExported() {
					continue
				}
				name := fd.Name.Name
				if fd.Recv != nil && len(fd.Recv.List) == 1 {
					rt := recvName(fd.Recv.List[0].Type)
					if rt == "" || !ast.IsExported(rt) {
						continue
					}
					name = rt + "." + name
				}
				seen[name] = true
			}
		}
		var names []string
		for n := range seen {
			names = append(names, n)
		}
		sort.Strings(names)
		out[p] = names
	}
	return out, nil
}

func recvName(e ast.Expr) string {
	switch t := e.(type) {
	case *ast.StarExpr:
		return recvName(t.X)
	case *ast.Ident:
		return t.Name
	case *ast.IndexExpr:
		return recvName(t.X)
	case *ast.IndexListExpr:
		return recvName(t.X)
	}
	return ""
}
