package main

import (
	"fmt"
)

func monadByKey(k string) *monad {
	for _, m := range monads {
		if m.Key == k {
			return m
		}
	}
	panic(k)
}

// extras emits the drivers that exist for one package only: the try SeqT/OptionT transformer
// functions (gen_monad_transformers.go), try.TraverseOption/Traverse_/ComposeOption, the StateT
// combinators defined through FlatMap, the lazy.Eval methods and fn1.WithArg.
func extras(has func(pkg, name string) bool) {
	try := monadByKey("Try")
	one := func(m *monad, fn, group string, gen func(c *ctx)) {
		if !has(m.P, fn) {
			return
		}
		c := &ctx{m: m, fn: fn}
		gen(c)
		emit(c, group, 0)
		cover(m.P, fn)
	}
	seqT := "fp.Seq[string]"
	optT := "fp.Option[string]"
	tOp := func(c *ctx) {
		c.d("ins1 := SeqTOperand(e)")
		c.ops = append(c.ops, [2]string{"x1", "ins1"})
	}
	oOp := func(c *ctx) {
		c.d("ins1 := OptionTOperand(e)")
		c.ops = append(c.ops, [2]string{"x1", "ins1"})
	}

	// ---- SeqT ----------------------------------------------------------------------------
	one(try, "PureSeqT", "transformer", func(c *ctx) {
		c.impl = `try.PureSeqT("a")`
		c.ref = c.pure(`fp.Seq[string]{"a"}`)
	})
	one(try, "LiftSeqT", "transformer", func(c *ctx) {
		c.opS(1)
		c.impl = "try.LiftSeqT(x1)"
		c.ref = c.fm("x1", "a", S, seqT, c.pure("fp.Seq[string]{a}"))
	})
	one(try, "MapSeqT", "transformer", func(c *ctx) {
		tOp(c)
		c.pureFn("f", 1)
		c.impl = "try.MapSeqT(x1, f)"
		c.ref = c.fm("x1", "s", seqT, seqT, c.pure("fp.Seq[string](MapSlice(s, f))"))
	})
	one(try, "SubFlatMapSeqT", "transformer", func(c *ctx) {
		tOp(c)
		c.d(`l_k := e.Letter("k", KLSeq)`)
		c.d(`k := func(a string) fp.Seq[string] { return KSeq(e, "k", l_k, a) }`)
		c.impl = "try.SubFlatMapSeqT(x1, k)"
		c.ref = c.fm("x1", "s", seqT, seqT, c.pure("fp.Seq[string](FlatMapSlice(s, k))"))
	})
	one(try, "TraverseSeqT", "transformer", func(c *ctx) {
		tOp(c)
		c.d(`fa := SeqTFunc(e, 1)`)
		c.impl = "try.TraverseSeqT(x1, fa)"
		c.ref = c.fm("x1", "xs", seqT, seqT, c.fm(traverseRef(c, "fa(x)"), "s", "[]string", seqT, c.pure("fp.Seq[string](s)")))
	})
	one(try, "FlatMapSeqT", "transformer", func(c *ctx) {
		tOp(c)
		c.d(`fa := SeqTFunc(e, 1)`)
		c.d(`fs := func(a string) fp.Try[fp.Seq[string]] {
			return try.FlatMap(fa(a), func(r string) fp.Try[fp.Seq[string]] { return try.Pure(fp.Seq[string]{r, r + "'"}) })
		}`)
		c.impl = "try.FlatMapSeqT(x1, fs)"
		c.ref = c.fm("x1", "xs", seqT, seqT, `func() fp.Try[fp.Seq[string]] {
			acc := try.Pure(fp.Seq[string]{})
			for _, x := range xs {
				x := x
				acc = `+c.fm("acc", "s", seqT, seqT, c.fm("fs(x)", "r", seqT, seqT, c.pure("append(append(fp.Seq[string]{}, s...), r...)")))+`
			}
			return acc
		}()`)
	})
	type tr struct{ name, decl, args, rt, inner string }
	pred := `p := Pred(e, "p")`
	fold := `f := func(b, a string) string { return e.Pure("f", b, a) }`
	for _, t := range []tr{
		{"Filter", pred, ", p", seqT, "s.Filter(p)"},
		{"Add", "", `, "y"`, seqT, `s.Add("y")`},
		{"Append", "", `, "y"`, seqT, `s.Append("y")`},
		{"Concat", "", `, fp.Seq[string]{"y", "z"}`, seqT, `s.Concat(fp.Seq[string]{"y", "z"})`},
		{"Drop", `k := e.Size("n", 3)`, ", k", seqT, "s.Drop(k)"},
		{"Exists", pred, ", p", "bool", "s.Exists(p)"},
		{"FilterNot", pred, ", p", seqT, "s.FilterNot(p)"},
		{"Find", pred, ", p", optT, "s.Find(p)"},
		{"ForAll", pred, ", p", "bool", "s.ForAll(p)"},
		{"Get", `k := e.Size("idx", 3)`, ", k", optT, "s.Get(k)"},
		{"Head", "", "", optT, "s.Head()"},
		{"Tail", "", "", seqT, "s.Tail()"},
		{"Init", "", "", seqT, "s.Init()"},
		{"IsEmpty", "", "", "bool", "s.IsEmpty()"},
		{"Last", "", "", optT, "s.Last()"},
		{"MakeString", "", `, "-"`, S, `s.MakeString("-")`},
		{"NonEmpty", "", "", "bool", "s.NonEmpty()"},
		{"Reverse", "", "", seqT, "s.Reverse()"},
		{"Size", "", "", "int", "s.Size()"},
		{"Take", `k := e.Size("n", 3)`, ", k", seqT, "s.Take(k)"},
		{"Fold", fold, `, "z", f`, S, `seq.Fold(s, "z", f)`},
		{"Scan", fold, `, "z", f`, seqT, `seq.Scan(s, "z", f)`},
		{"Sort", "", ", ord.Given[string]()", seqT, "seq.Sort(s, ord.Given[string]())"},
		{"Min", "", ", ord.Given[string]()", optT, "seq.Min(s, ord.Given[string]())"},
		{"Max", "", ", ord.Given[string]()", optT, "seq.Max(s, ord.Given[string]())"},
	} {
		t := t
		one(try, t.name+"SeqT", "transformer", func(c *ctx) {
			tOp(c)
			if t.decl != "" {
				c.d("%s", t.decl)
			}
			c.impl = fmt.Sprintf("try.%sSeqT(x1%s)", t.name, t.args)
			c.ref = c.fm("x1", "s", seqT, t.rt, c.pure(t.inner))
		})
	}

	// ---- OptionT -------------------------------------------------------------------------
	one(try, "PureOptionT", "transformer", func(c *ctx) {
		c.impl = `try.PureOptionT("a")`
		c.ref = c.pure(`fp.Some("a")`)
	})
	one(try, "LiftOptionT", "transformer", func(c *ctx) {
		c.opS(1)
		c.impl = "try.LiftOptionT(x1)"
		c.ref = c.fm("x1", "a", S, optT, c.pure("fp.Some(a)"))
	})
	one(try, "MapOptionT", "transformer", func(c *ctx) {
		oOp(c)
		c.pureFn("f", 1)
		c.impl = "try.MapOptionT(x1, f)"
		c.ref = c.fm("x1", "o", optT, optT, c.pure("MapOpt(o, f)"))
	})
	one(try, "SubFlatMapOptionT", "transformer", func(c *ctx) {
		oOp(c)
		c.d(`l_k := e.Letter("k", KLOption)`)
		c.d(`k := func(a string) fp.Option[string] { return KOption(e, "k", l_k, a) }`)
		c.impl = "try.SubFlatMapOptionT(x1, k)"
		c.ref = c.fm("x1", "o", optT, optT, c.pure("FlatMapOpt(o, k)"))
	})
	one(try, "TraverseOptionT", "transformer", func(c *ctx) {
		oOp(c)
		c.kFn("k", 1)
		c.impl = "try.TraverseOptionT(x1, k)"
		c.ref = c.fm("x1", "o", optT, optT, `func() fp.Try[fp.Option[string]] {
			if o.IsDefined() {
				return `+c.fm("k(o.Get())", "r", S, optT, c.pure("fp.Some(r)"))+`
			}
			return try.Pure(fp.None[string]())
		}()`)
	})
	one(try, "FlatMapOptionT", "transformer", func(c *ctx) {
		oOp(c)
		c.d(`l_k := e.Letter("k", 4)`)
		c.d(`k := func(a string) fp.Try[fp.Option[string]] {
			e.Call("k", a)
			switch l_k {
			case 0:
				return try.Pure(fp.Some("k(" + a + ")"))
			case 1:
				return FailedTry[fp.Option[string]](e, 0)
			case 2:
				return try.Pure(fp.None[string]())
			}
			return try.Pure(fp.Some(a))
		}`)
		c.impl = "try.FlatMapOptionT(x1, k)"
		c.ref = c.fm("x1", "o", optT, optT, `func() fp.Try[fp.Option[string]] {
			if o.IsDefined() {
				return k(o.Get())
			}
			return try.Pure(fp.None[string]())
		}()`)
	})
	sup := `f := func() string { e.Call("f"); return "alt" }`
	supO := `f := func() fp.Option[string] { e.Call("f"); return AltOption(l_f) }`
	for _, t := range []tr{
		{"Filter", pred, ", p", optT, "o.Filter(p)"},
		{"OrElse", "", `, "alt"`, S, `o.OrElse("alt")`},
		{"OrZero", "", "", S, "o.OrZero()"},
		{"OrElseGet", sup, ", f", S, "o.OrElseGet(f)"},
		{"Or", `l_f := e.Letter("f", 2)` + "\n" + supO, ", f", optT, "o.Or(f)"},
		{"OrOption", `l_f := e.Letter("alt", 2)`, ", AltOption(l_f)", optT, "o.OrOption(AltOption(l_f))"},
		{"OrPtr", `l_f := e.Letter("alt", 2)`, ", AltPtr(l_f)", optT, "o.OrPtr(AltPtr(l_f))"},
		{"Recover", sup, ", f", optT, "o.Recover(f)"},
		{"Fold", fold, `, "z", f`, S, `option.Fold(o, "z", f)`},
	} {
		t := t
		one(try, t.name+"OptionT", "transformer", func(c *ctx) {
			oOp(c)
			if t.decl != "" {
				c.d("%s", t.decl)
			}
			c.impl = fmt.Sprintf("try.%sOptionT(x1%s)", t.name, t.args)
			c.ref = c.fm("x1", "o", optT, t.rt, c.pure(t.inner))
		})
	}

	// ---- other try functions -----------------------------------------------------------------
	one(try, "TraverseOption", "catalogue", func(c *ctx) {
		c.d(`present := e.X.Choose(2, "present") == 1`)
		c.d(`var o fp.Option[string]
		if present {
			o = fp.Some("x1")
		}`)
		c.d(`failAt := map[string]int{}
		if present && e.Fail(1, TokTry(1)) {
			failAt["x1"] = 1
		}`)
		c.d(`fa := func(a string) fp.Try[string] {
			if i, bad := failAt[a]; bad {
				return FailTry[string](e, "fa", i, a)
			}
			return KTry(e, "fa", 0, a)
		}`)
		c.impl = "try.TraverseOption(o, fa)"
		c.ref = `@if o.IsDefined() {
			return ` + c.fm("fa(o.Get())", "r", S, optT, c.pure("fp.Some(r)")) + `
		}
		return try.Pure(fp.None[string]())`
	})
	one(try, "Traverse_", "catalogue", func(c *ctx) {
		traverseDecl(c)
		c.d(`kind := e.X.Choose(SourceKinds, "source")`)
		c.impl = "try.Traverse_(Source(e, kind, xs), fa)"
		c.ref = `@src := Source(e, kind, xs)
		var loop func() fp.Try[fp.Unit]
		loop = func() fp.Try[fp.Unit] {
			if !src.HasNext() {
				return try.Pure(fp.Unit{})
			}
			x := src.Next()
			return ` + c.fm("fa(x)", "_", S, "fp.Unit", "loop()") + `
		}
		acc := loop()
		if acc.IsSuccess() {
			return error(nil)
		}
		return acc.Failed().Get()`
	})
	one(try, "ComposeOption", "catalogue", func(c *ctx) {
		c.d(`l_k1 := e.Letter("k1", KLOption)`)
		c.d(`k1 := func(a string) fp.Option[string] { return KOption(e, "k1", l_k1, a) }`)
		c.kFn("k2", 1)
		c.impl = `try.ComposeOption(k1, k2)("a")`
		c.ref = `@o := k1("a")
		if o.IsEmpty() {
			return try.Failure[string](fp.ErrOptionEmpty)
		}
		return ` + c.fm("try.Pure(o.Get())", "b", S, S, "k2(b)")
	})

	// ---- statet ----------------------------------------------------------------------------------
	st := monadByKey("Statet")
	one(st, "FlatMapConst", "catalogue", func(c *ctx) {
		c.opsS(2)
		c.impl = "statet.FlatMapConst(x1, x2)"
		c.ref = c.fm("x1", "_", S, S, "x2")
	})
	one(st, "Concat", "catalogue", func(c *ctx) {
		c.d(`n := e.Size("tail", 3)`)
		c.d(`mk := make([]func() fp.StateT[int, string], n+1)`)
		c.d(`for i := range mk {
			mk[i] = OpStatet(e, i+1, "v"+Itoa(i+1))
		}`)
		c.impl = `@ts := make([]fp.StateT[int, string], len(mk))
		for i, m := range mk {
			ts[i] = m()
		}
		return statet.Concat(ts[0], ts[1:]...)`
		c.ref = `@ts := make([]fp.StateT[int, string], len(mk))
		for i, m := range mk {
			ts[i] = m()
		}
		acc := ts[0]
		for _, t := range ts[1:] {
			t := t
			acc = ` + c.fm("acc", "_", S, S, "t") + `
		}
		return acc`
	})
	fnT := "fp.Func1[string, string]"
	one(st, "ApTry", "catalogue", func(c *ctx) {
		c.pureFn("f", 1)
		c.opP(1, fnT+"(f)")
		c.d(`ins2 := OpTry(e, 2, "v2")`)
		c.ops = append(c.ops, [2]string{"x2", "ins2"})
		c.impl = "statet.ApTry(x1, x2)"
		c.ref = c.fm("x1", "h", fnT, S, c.fm("statet.FromTry[int](x2)", "a", S, S, c.pure("h(a)")))
	})
	one(st, "ApOption", "catalogue", func(c *ctx) {
		c.pureFn("f", 1)
		c.opP(1, fnT+"(f)")
		c.d(`present := e.X.Choose(2, "present") == 1`)
		c.d(`e.Position(2, !present, "ErrOptionEmpty")`)
		c.d(`var o fp.Option[string]
		if present {
			o = fp.Some("v2")
		}`)
		c.impl = "statet.ApOption(x1, o)"
		c.ref = c.fm("x1", "h", fnT, S, c.fm("statet.FromTry[int](try.FromOption(o))", "a", S, S, c.pure("h(a)")))
	})
	one(st, "WithState", "catalogue", func(c *ctx) {
		c.d(`l_k := e.Letter("k", KLStatet)`)
		c.d(`k := func(s int) fp.StateT[int, string] { return KStatet(e, "k", l_k, Itoa(s)) }`)
		c.impl = "statet.WithState(k)"
		c.ref = "statet.FlatMap(statet.Get[int](), k)"
	})

	// ---- lazy.Eval methods -------------------------------------------------------------------
	ev := monadByKey("Eval")
	one(ev, "Eval.Map", "catalogue", func(c *ctx) {
		c.opS(1)
		c.pureFn("f", 1)
		c.impl = "x1.Map(f)"
		c.ref = c.nest(1, S, c.pure("f(a1)"))
	})
	one(ev, "Eval.FlatMap", "catalogue", func(c *ctx) {
		c.opS(1)
		c.kFn("k", 1)
		c.impl = "x1.FlatMap(k)"
		c.ref = c.nest(1, S, "k(a1)")
	})
	one(ev, "Run", "catalogue", func(c *ctx) {
		c.opS(1)
		c.impl = "lazy.Run(x1)"
		c.ref = "x1.Get()"
	})

	// ---- fn1 ----------------------------------------------------------------------------------
	f1 := monadByKey("Fn1")
	one(f1, "WithArg", "catalogue", func(c *ctx) {
		c.d(`l_k := e.Letter("k", KLFn1)`)
		c.d(`k := func(x int) fp.Func1[int, string] { return KFn1(e, "k", l_k, Itoa(x)) }`)
		c.impl = "fn1.WithArg[int, string](k)"
		c.ref = "fn1.FlatMap(fp.Func1[int, int](func(x int) int { return x }), k)"
	})
}
