package main

import (
	"fmt"
	"strings"
)

// builders emits the drivers of ApplicativeN(fn).Ap*(..)... and ChainN(fn).<stage>... for N = 1..9.
// Every stage picks one of the builder's methods (Env.Kinds) and, where the method takes a
// Try/Option (or a supplier of one), whether that operand fails. The definition is the
// FlatMap nest over the stage operands, each evaluated inside the continuation of the
// previous one (so a supplier of a later stage is not called after a failure).
func builders(m *monad, has func(pkg, name string) bool) {
	type kind struct{ method, arg string }
	var ap []kind
	if m.Key == "Try" {
		ap = []kind{{"Ap", "st%d.Val()"}, {"ApTry", "st%d.M()"}, {"ApOption", "st%d.Opt()"},
			{"ApFunc", "st%d.ValFn()"}, {"ApTryFunc", "st%d.MFn()"}, {"ApOptionFunc", "st%d.OptFn()"}}
	} else {
		ap = []kind{{"Ap", "st%d.Val()"}, {"ApOption", "st%d.M()"}, {"ApFunc", "st%d.ValFn()"}, {"ApOptionFunc", "st%d.MFn()"}}
	}
	chainOnly := []string{"FlatMap", "Map", "HListFlatMap", "HListMap"}
	kindNames := func(chain bool) string {
		var ns []string
		for _, k := range ap {
			ns = append(ns, fmt.Sprintf("%q", k.method))
		}
		if chain {
			for _, k := range chainOnly {
				ns = append(ns, fmt.Sprintf("%q", k))
			}
		}
		return "[]string{" + strings.Join(ns, ", ") + "}"
	}
	strs := func(n int) string { return strings.TrimSuffix(strings.Repeat("string, ", n), ", ") }
	hType := func(k int) string { // hlist after k stages
		t := "hlist.Nil"
		for i := 0; i < k; i++ {
			t = "hlist.Cons[string, " + t + "]"
		}
		return t
	}
	htType := func(k int) string {
		if k == 0 {
			return "hlist.Nil"
		}
		return "string"
	}
	for _, chain := range []bool{false, true} {
		ctor, typ := "Applicative", "ApplicativeFunctor"
		if chain {
			ctor, typ = "Chain", "MonadChain"
		}
		for n := 1; n <= 9; n++ {
			if !has(m.P, fmt.Sprintf("%s%d", ctor, n)) {
				continue
			}
			c := &ctx{m: m, n: n, fn: fmt.Sprintf("%s%d", ctor, n)}
			nk := len(ap)
			if chain {
				nk += len(chainOnly)
			}
			c.d("kinds := e.Kinds(%d, %d)", n, nk)
			c.d("names := %s", kindNames(chain))
			for i := 1; i <= n; i++ {
				c.d("st%d := New%sStage(e, %d, names[kinds[%d]])", i, m.Key, i, i-1)
			}
			c.pureFn("fn", n)
			// type of the builder after k stages
			bType := func(k int) string {
				left := n - k
				if chain {
					return fmt.Sprintf("%s.%s%d[%s, %s, %s]", m.P, typ, left, hType(k), htType(k), strs(left+1))
				}
				return fmt.Sprintf("%s.%s%d[%s]", m.P, typ, left, strs(left+1))
			}
			var b strings.Builder
			fmt.Fprintf(&b, "@b0 := %s.%s%d(fn)\n", m.P, ctor, n)
			for i := 1; i <= n; i++ {
				k := i - 1 // stages already applied
				res := fmt.Sprintf("b%d", i)
				if i == n {
					fmt.Fprintf(&b, "var %s %s\n", res, c.T(S))
				} else {
					fmt.Fprintf(&b, "var %s %s\n", res, bType(i))
				}
				fmt.Fprintf(&b, "switch kinds[%d] {\n", i-1)
				for ki, kd := range ap {
					fmt.Fprintf(&b, "case %d:\n%s = b%d.%s(%s)\n", ki, res, k, kd.method, fmt.Sprintf(kd.arg, i))
					cover(m.P, fmt.Sprintf("%s%d.%s", typ, n-k, kd.method))
				}
				if chain {
					base := len(ap)
					fmt.Fprintf(&b, "case %d:\n%s = b%d.FlatMap(func(h %s) %s { return st%d.Fm(Show(h)) })\n", base, res, k, htType(k), c.T(S), i)
					fmt.Fprintf(&b, "case %d:\n%s = b%d.Map(func(h %s) string { return st%d.Mp(Show(h)) })\n", base+1, res, k, htType(k), i)
					fmt.Fprintf(&b, "case %d:\n%s = b%d.HListFlatMap(func(h %s) %s { return st%d.Hfm(Show(h)) })\n", base+2, res, k, hType(k), c.T(S), i)
					fmt.Fprintf(&b, "case %d:\n%s = b%d.HListMap(func(h %s) string { return st%d.Hmp(Show(h)) })\n", base+3, res, k, hType(k), i)
					for _, mth := range chainOnly {
						cover(m.P, fmt.Sprintf("%s%d.%s", typ, n-k, mth))
					}
				}
				fmt.Fprintf(&b, "}\n")
			}
			fmt.Fprintf(&b, "return b%d", n)
			c.impl = b.String()
			// definition
			body := c.pure("fn(" + list("a", 1, n) + ")")
			for i := n; i >= 1; i-- {
				prevHead, prevList := `"()"`, `"()"`
				if i > 1 {
					prevHead = fmt.Sprintf("a%d", i-1)
					prevList = "HRef(" + list("a", 1, i-1) + ")"
				}
				body = c.fm(fmt.Sprintf("st%d.Ref(%s, %s)", i, prevHead, prevList), fmt.Sprintf("a%d", i), S, S, body)
			}
			c.ref = body
			sub := "applicative"
			if chain {
				sub = "chain_lo"
				if n >= 7 {
					sub = "chain_hi"
				}
			}
			emitIn(c, "builder", sub, n)
			cover(m.P, c.fn)
		}
	}
}
