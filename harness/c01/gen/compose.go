package main

import (
	"fmt"
)

// compositions emits, for each of the generated monad packages, a driver that enumerates every
// expression tree of depth <= 2 (thorough: plus one more unary level) over nine node kinds (operand, Map, Replace, LiftM,
// Flatten.Map, Map2, Ap.Map, FlatMap2, Map.Zip) and compares the tree built with the library's
// combinators with the same tree built from FlatMap and the unit only. This is the bounded
// answer to "all finite compositions of the combinators" in the quantifier of C01; C02 compares
// the call logs of the two trees.
func compositions(has func(pkg, name string) bool) {
	for _, m := range monads {
		if !m.Fail {
			continue
		}
		ok := true
		for _, fn := range []string{"Map", "Replace", "LiftM", "Flatten", "Map2", "Ap", "FlatMap2", "Zip"} {
			ok = ok && has(m.P, fn)
		}
		if !ok {
			continue
		}
		c := &ctx{m: m, fn: "compose"}
		T := c.T(S)
		P := m.P
		fix := m.Fix
		fnT := "fp.Func1[string, string]"
		pkg := pkgOf(m, "catalogue")
		out = bufs[pkg]
		id := "drv_" + P + "_compose"
		fmt.Fprintf(out, `
// expression trees over %[1]s
type cx_%[2]s struct {
	e    *Env
	leaf int
	node int
}

func (c *cx_%[2]s) fresh(p string) string { c.node++; return p + Itoa(c.node) }

func (c *cx_%[2]s) build(depth int) (lib, def func() %[1]s) {
	e := c.e
	kinds := 9
	if depth == 0 {
		kinds = 1
	} else if depth >= 3 {
		kinds = 5 // operand or a unary node on top of a depth-2 tree
	}
	switch e.X.Choose(kinds, "node") {
	case 0:
		c.leaf++
		op := Op%[3]s(e, c.leaf, "v"+Itoa(c.leaf))
		return op, op
	case 1: // Map
		li, ld := c.build(depth - 1)
		id := c.fresh("f")
		f := func(a string) string { return e.Pure(id, a) }
		return func() %[1]s { return %[2]s.Map%[4]s(li(), f) },
			func() %[1]s { return %[5]s }
	case 2: // Replace
		li, ld := c.build(depth - 1)
		return func() %[1]s { return %[2]s.Replace%[4]s(li(), "b") },
			func() %[1]s { return %[6]s }
	case 3: // LiftM
		li, ld := c.build(depth - 1)
		id := c.fresh("k")
		l := e.Letter(id, KL%[3]s)
		k := func(a string) %[1]s { return K%[3]s(e, id, l, a) }
		return func() %[1]s { return %[2]s.LiftM%[4]s(k)(li()) },
			func() %[1]s { return %[2]s.FlatMap(ld(), k) }
	case 4: // Flatten . Map
		li, ld := c.build(depth - 1)
		id := c.fresh("k")
		l := e.Letter(id, KL%[3]s)
		k := func(a string) %[1]s { return K%[3]s(e, id, l, a) }
		return func() %[1]s { return %[2]s.Flatten%[4]s(%[2]s.Map%[4]s(li(), k)) },
			func() %[1]s { return %[2]s.FlatMap(ld(), k) }
	case 5: // Map2
		li, ld := c.build(depth - 1)
		ri, rd := c.build(depth - 1)
		id := c.fresh("f")
		f := func(a, b string) string { return e.Pure(id, a, b) }
		return func() %[1]s { l, r := li(), ri(); return %[2]s.Map2%[4]s(l, r, f) },
			func() %[1]s { x1, x2 := ld(), rd(); return %[7]s }
	case 6: // Ap . Map
		li, ld := c.build(depth - 1)
		ri, rd := c.build(depth - 1)
		id := c.fresh("f")
		f := func(a string) %[8]s { return func(b string) string { return e.Pure(id, a, b) } }
		return func() %[1]s { l, r := li(), ri(); return %[2]s.Ap%[4]s(%[2]s.Map%[4]s(l, f), r) },
			func() %[1]s { x1, x2 := ld(), rd(); return %[9]s }
	case 7: // FlatMap2
		li, ld := c.build(depth - 1)
		ri, rd := c.build(depth - 1)
		id := c.fresh("k")
		l := e.Letter(id, KL%[3]s)
		k := func(a, b string) %[1]s { return K%[3]s(e, id, l, a, b) }
		return func() %[1]s { l, r := li(), ri(); return %[2]s.FlatMap2%[4]s(l, r, k) },
			func() %[1]s { x1, x2 := ld(), rd(); return %[10]s }
	}
	// Map . Zip
	li, ld := c.build(depth - 1)
	ri, rd := c.build(depth - 1)
	id := c.fresh("f")
	f := func(t fp.Tuple2[string, string]) string { return e.Pure(id, t.I1, t.I2) }
	return func() %[1]s { l, r := li(), ri(); return %[2]s.Map%[4]s(%[2]s.Zip%[4]s(l, r), f) },
		func() %[1]s { x1, x2 := ld(), rd(); return %[11]s }
}

// %[2]s: every tree of depth <= 2 (thorough: also every unary node on top of one)
func %[12]s(e *Env) {
	e.NoFirstFailure = true // a failing callback may precede a failing operand
	c := &cx_%[2]s{e: e}
	depth := 2
	if e.X.Thorough() {
		depth = 3
	}
	lib, def := c.build(depth)
	e.Compare(func() any { return lib() }, func() any { return def() })
}
`, T, P, m.Key, fix,
			c.fm("ld()", "a", S, S, c.pure("f(a)")),
			c.fm("ld()", "_", S, S, c.pure(`"b"`)),
			c.nest(2, S, c.pure("f(a1, a2)")),
			fnT,
			c.fm("x1", "a1", S, S, c.fm("x2", "a2", S, S, c.pure("f(a1)(a2)"))),
			c.nest(2, S, "k(a1, a2)"),
			c.nest(2, S, c.pure("f(fp.Tuple2[string, string]{I1: a1, I2: a2})")),
			id)
		cases = append(cases, emitted{pkg: pkg, monad: P, name: "compose", fn: id, arity: 0, fail: true, group: "composition"})
	}
}
