// Package sup is the support code shared by the generated C14 drivers (zz/*/zz_generated.go).
package sup

import (
	"fmt"
	"reflect"
	"regexp"
	"sort"
	"strconv"
	"strings"

	"github.com/csgura/fp"
	"verif/mc"
)

// Pairwise distinct named argument types: in the "distinct" instantiation argument i has
// type Pi, so only the intended plumbing type-checks. All have underlying type int, so the
// same position tags (100*i+1) are used in both instantiations.
type (
	P1  int
	P2  int
	P3  int
	P4  int
	P5  int
	P6  int
	P7  int
	P8  int
	P9  int
	P10 int
	P11 int
	P12 int
	P13 int
	P14 int
	P15 int
	P16 int
	P17 int
	P18 int
	P19 int
	P20 int
	P21 int
	P22 int
	P23 int
	P24 int
)

// PR is the result type of the tagged callbacks: the printed call, e.g. "f(101,201,301)".
type PR string

// Labelled families need fp.Named components: L1..L22 pairwise distinct, LI the one shared
// type of the all-same ("int") instantiation.
type (
	L1  int
	L2  int
	L3  int
	L4  int
	L5  int
	L6  int
	L7  int
	L8  int
	L9  int
	L10 int
	L11 int
	L12 int
	L13 int
	L14 int
	L15 int
	L16 int
	L17 int
	L18 int
	L19 int
	L20 int
	L21 int
	L22 int
	LI  int
)

func (L1) Name() string  { return "l1" }
func (L2) Name() string  { return "l2" }
func (L3) Name() string  { return "l3" }
func (L4) Name() string  { return "l4" }
func (L5) Name() string  { return "l5" }
func (L6) Name() string  { return "l6" }
func (L7) Name() string  { return "l7" }
func (L8) Name() string  { return "l8" }
func (L9) Name() string  { return "l9" }
func (L10) Name() string { return "l10" }
func (L11) Name() string { return "l11" }
func (L12) Name() string { return "l12" }
func (L13) Name() string { return "l13" }
func (L14) Name() string { return "l14" }
func (L15) Name() string { return "l15" }
func (L16) Name() string { return "l16" }
func (L17) Name() string { return "l17" }
func (L18) Name() string { return "l18" }
func (L19) Name() string { return "l19" }
func (L20) Name() string { return "l20" }
func (L21) Name() string { return "l21" }
func (L22) Name() string { return "l22" }
func (LI) Name() string  { return "li" }

// Member is one exported arity-indexed library Member with its generated drivers.
type Member struct {
	Family string // e.g. "curried.FlipN"
	Name   string // e.g. "curried.Flip3"
	N      int    // the arity index in the member's name
	Arity  int    // number of position-distinguishable values the driver uses
	D      func(t *T)
	I      func(t *T)
	Nil    func(t *T) // nilable argument/result types, one-hot nil walk (effectful families)
}

// T is the per-execution context handed to a generated driver.
type T struct {
	X      *mc.X
	Member string
	Mode   string
	Log    []string
	misuse []string
	hot    string
	Checks int
	Obs    []string
}

// SyncExec runs a task inline (futures are driven with already completed operands).
type SyncExec struct{}

func (SyncExec) ExecuteUnsafe(r fp.Runnable) { r.Run() }

func (t *T) Fail(format string, args ...any) {
	where := t.Mode + " instantiation"
	if t.hot != "" {
		where += ", " + t.hot
	}
	t.X.Fail(t.Member, "%s [%s]: %s", t.Member, where, fmt.Sprintf(format, args...))
}

// Ent formats one log entry / expected result: name(arg,arg,...).
func Ent(name string, args ...any) string {
	var sb strings.Builder
	sb.WriteString(name)
	sb.WriteByte('(')
	for i, a := range args {
		if i > 0 {
			sb.WriteByte(',')
		}
		sb.WriteString(Desc(a))
	}
	sb.WriteByte(')')
	return sb.String()
}

// PtrI and Fn build the tagged values of the nilable instantiation.
func PtrI(v int) *int { return &v }

func Fn(v int) func() int { return func() int { return v } }

// Desc prints a value so that its position tag stays visible whatever its type: pointers
// are followed, a func() int is called, nil pointers/slices/maps/funcs/interfaces print as
// "nil"; everything else prints with %v (position tags of the int instantiations unchanged).
func Desc(a any) string {
	if a == nil {
		return "nil"
	}
	v := reflect.ValueOf(a)
	switch v.Kind() {
	case reflect.Pointer:
		if v.IsNil() {
			return "nil"
		}
		return "&" + Desc(v.Elem().Interface())
	case reflect.Func:
		if v.IsNil() {
			return "nil"
		}
		if f, ok := a.(func() int); ok {
			return fmt.Sprintf("fn%d", f())
		}
		return "func"
	case reflect.Slice, reflect.Map:
		if v.IsNil() {
			return "nil"
		}
	case reflect.Struct:
		// exported-field products (fp.TupleN): describe component-wise
		t := v.Type()
		if t.NumField() > 0 && t.Field(0).IsExported() && strings.HasPrefix(t.Name(), "Tuple") {
			var ps []string
			for i := 0; i < v.NumField(); i++ {
				ps = append(ps, Desc(v.Field(i).Interface()))
			}
			return "(" + strings.Join(ps, ",") + ")"
		}
	}
	return fmt.Sprintf("%v", a)
}

// CallP / ResP: the callback result of the nilable instantiation is *PR; with nilRes the
// callback returns nil (a legal value of the result type that must not be dropped).
func (t *T) CallP(name string, nilRes bool, args ...any) *PR {
	s := Ent(name, args...)
	t.Log = append(t.Log, s)
	if nilRes {
		return nil
	}
	r := PR(s)
	return &r
}

func ResP(name string, nilRes bool, args ...any) *PR {
	if nilRes {
		return nil
	}
	r := PR(Ent(name, args...))
	return &r
}

// Hot records which position of the one-hot nil walk is running (0: none, N+1: nil result).
func (t *T) Hot(hot, n int) {
	switch {
	case hot == 0:
		t.hot = "all arguments non-nil"
	case hot <= n:
		t.hot = fmt.Sprintf("argument %d is nil", hot)
	default:
		t.hot = "the callback returns nil"
	}
}

// rec logs one invocation of a tagged callback. It never fails (callbacks may run inside
// library goroutines); misuse is recorded and reported by the next check.
func (t *T) Rec(name string, args ...any) {
	t.Log = append(t.Log, Ent(name, args...))
}

// call logs the invocation and returns its printed form as the callback's result.
func (t *T) Call(name string, args ...any) PR {
	s := Ent(name, args...)
	t.Log = append(t.Log, s)
	return PR(s)
}

// Res is the value call would return, without logging (used for the expected side).
func Res(name string, args ...any) PR { return PR(Ent(name, args...)) }

func (t *T) FlushMisuse() {
	if len(t.misuse) > 0 {
		t.Fail("a component instance was applied to a foreign position: %s", strings.Join(t.misuse, "; "))
	}
}

// eq compares a library result with the defining expression (types included).
func (t *T) Eq(what string, got, want any) {
	t.FlushMisuse()
	t.Checks++
	if !reflect.DeepEqual(got, want) {
		// values containing funcs are never DeepEqual: compare their descriptions (nilable instantiation)
		same := t.Mode == "nil" && reflect.TypeOf(got) == reflect.TypeOf(want) && Desc(got) == Desc(want)
		if !same {
			t.Fail("%s = %s (%T), the defining equation gives %s (%T)", what, Desc(got), got, Desc(want), want)
		}
	}
	if t.X.Recording() {
		t.X.Logf("%s = %s", what, Desc(got))
	}
	t.Obs = append(t.Obs, Desc(got))
}

func (t *T) Eqs(what string, got, want []any) {
	if len(got) != len(want) {
		t.Fail("%s returned %d values, want %d", what, len(got), len(want))
	}
	for i := range got {
		t.Eq(fmt.Sprintf("%s[%d]", what, i+1), got[i], want[i])
	}
}

// logIs demands exactly the given callback invocations in this order, then clears the log.
func (t *T) LogIs(what string, want ...string) {
	t.FlushMisuse()
	t.Checks++
	if !reflect.DeepEqual(append([]string{}, t.Log...), append([]string{}, want...)) {
		t.Fail("%s: callbacks invoked %v, the defining equation invokes %v", what, t.Log, want)
	}
	t.Obs = append(t.Obs, t.Log...)
	t.Log = nil
}

// logSet demands exactly the given invocations, each once, in any order (used where the
// order of independent callbacks is not part of the defining equation).
func (t *T) LogSet(what string, want ...string) {
	t.FlushMisuse()
	t.Checks++
	g := append([]string{}, t.Log...)
	w := append([]string{}, want...)
	sort.Strings(g)
	sort.Strings(w)
	if !reflect.DeepEqual(g, w) {
		t.Fail("%s: callbacks invoked %v, the defining equation invokes exactly %v (in any order)", what, t.Log, want)
	}
	t.Obs = append(t.Obs, g...)
	t.Log = nil
}

// logSetThen: the first len(set) entries are exactly set in any order, followed by then in order.
func (t *T) LogSetThen(what string, set []string, then ...string) {
	t.FlushMisuse()
	t.Checks++
	ok := len(t.Log) == len(set)+len(then)
	if ok {
		g := append([]string{}, t.Log[:len(set)]...)
		w := append([]string{}, set...)
		sort.Strings(g)
		sort.Strings(w)
		ok = reflect.DeepEqual(g, w) && reflect.DeepEqual(append([]string{}, t.Log[len(set):]...), append([]string{}, then...))
	}
	if !ok {
		t.Fail("%s: callbacks invoked %v, the defining equation invokes %v (any order) and then %v", what, t.Log, set, then)
	}
	t.Obs = append(t.Obs, t.Log...)
	t.Log = nil
}

var numRe = regexp.MustCompile(`-?\d+`)

// nums demands that the decimal numbers occurring in s are exactly want, in order (String()
// of a product: formatting is free, the components and their order are not).
func (t *T) Nums(what, s string, want ...int) {
	t.Checks++
	var got []int
	for _, m := range numRe.FindAllString(s, -1) {
		n, _ := strconv.Atoi(m)
		got = append(got, n)
	}
	if !reflect.DeepEqual(got, want) {
		t.Fail("%s = %q shows components %v, want %v", what, s, got, want)
	}
	t.Obs = append(t.Obs, s)
}

// ---- extraction of monadic results (all operands are successes) ----

func OptVal[A any](t *T, what string, o fp.Option[A]) any {
	if !o.IsDefined() {
		t.Fail("%s is None although every operand is Some", what)
	}
	return o.Get()
}

func TryVal[A any](t *T, what string, v fp.Try[A]) any {
	if !v.IsSuccess() {
		t.Fail("%s is %v although every operand is a Success", what, v)
	}
	return v.Get()
}

// FutVal waits for the future. Operands are completed futures and the executor is
// synchronous, so most members are complete on return; members that go through the default
// executor internally are awaited (callback order is fixed by data dependencies).
func FutVal[A any](t *T, what string, f fp.Future[A]) any {
	if !f.IsCompleted() {
		done := make(chan struct{})
		f.OnComplete(func(fp.Try[A]) { close(done) }, SyncExec{})
		<-done
		t.X.Tag("future:awaited")
	} else {
		t.X.Tag("future:synchronous")
	}
	v := f.Value()
	if !v.IsSuccess() {
		t.Fail("%s is %v although every operand is a successful future", what, v)
	}
	return v.Get()
}

// ---- position-tagged type class instances ----
// Component i only ever holds values v with v/100 == i. An instance built for position i
// records a misuse when it is handed a value of another position.

type intish interface{ ~int }

func (t *T) pos(kind string, i int, vs ...int) {
	for _, v := range vs {
		if v/100 != i {
			t.misuse = append(t.misuse, fmt.Sprintf("%s instance %d received %d (a component of position %d)", kind, i, v, v/100))
		}
	}
}

func EqAt[A intish](t *T, i int) fp.Eq[A] {
	return fp.EqFunc[A](func(a, b A) bool {
		t.pos("Eq", i, int(a), int(b))
		return a == b
	})
}

func OrdAt[A intish](t *T, i int) fp.Ord[A] {
	return fp.CompareFunc[A](func(a, b A) int {
		t.pos("Ord", i, int(a), int(b))
		switch {
		case a < b:
			return -1
		case a > b:
			return 1
		}
		return 0
	})
}

type hashIns[A intish] struct {
	t *T
	i int
}

func (h hashIns[A]) Eqv(a, b A) bool {
	h.t.pos("Hashable", h.i, int(a), int(b))
	return a == b
}
func (h hashIns[A]) Hash(a A) uint32 {
	h.t.pos("Hashable", h.i, int(a))
	h.t.Rec(fmt.Sprintf("hash%d", h.i), int(a))
	return uint32(a) * 2654435761
}

func HashAt[A intish](t *T, i int) fp.Hashable[A] { return hashIns[A]{t, i} }

type monoidIns[A intish] struct {
	t *T
	i int
}

func (m monoidIns[A]) Empty() A { return A(100*m.i + 9) }
func (m monoidIns[A]) Combine(a, b A) A {
	m.t.pos("Monoid", m.i, int(a), int(b))
	m.t.Rec(fmt.Sprintf("combine%d", m.i), int(a), int(b))
	return A(combineRef(m.i, int(a), int(b)))
}

// combineRef is deliberately not commutative, so swapped operands are visible.
func combineRef(i, a, b int) int { return 100*i + ((a%100)*7+(b%100)*3+1)%100 }

func MonoidAt[A intish](t *T, i int) fp.Monoid[A] { return monoidIns[A]{t, i} }

func CloneAt[A intish](t *T, i int) fp.Clone[A] {
	return fp.CloneFunc[A](func(a A) A {
		t.pos("Clone", i, int(a))
		t.Rec(fmt.Sprintf("clone%d", i), int(a))
		return a + 50
	})
}

// ---- reflection helpers over fp.TupleN values (fields I1..IN of int kind) ----

func mkTuple[TT any](vals []int) TT {
	var z TT
	v := reflect.ValueOf(&z).Elem()
	if v.NumField() != len(vals) {
		panic(fmt.Sprintf("mkTuple: %T has %d fields, %d values", z, v.NumField(), len(vals)))
	}
	for i, n := range vals {
		v.Field(i).SetInt(int64(n))
	}
	return z
}

func tupleInts(tt any) []int {
	v := reflect.ValueOf(tt)
	out := make([]int, v.NumField())
	for i := range out {
		out[i] = int(v.Field(i).Int())
	}
	return out
}

func baseVals(n int) []int {
	out := make([]int, n)
	for i := range out {
		out[i] = 100*(i+1) + 5
	}
	return out
}

func with(vals []int, deltas ...int) []int {
	out := append([]int{}, vals...)
	for k := 0; k+1 < len(deltas); k += 2 {
		out[deltas[k]] += deltas[k+1]
	}
	return out
}

// variants: the base tuple, every single-position change (up and down) and every pair of
// opposite changes at two positions (the earlier position must decide a lexicographic order).
func variants(n int) [][]int {
	b := baseVals(n)
	out := [][]int{b}
	for j := 0; j < n; j++ {
		out = append(out, with(b, j, 1), with(b, j, -1))
	}
	for j := 0; j < n; j++ {
		for k := j + 1; k < n; k++ {
			out = append(out, with(b, j, 1, k, -1), with(b, j, -1, k, 1))
		}
	}
	return out
}

func eqRef(a, b []int) bool {
	for i := range a {
		if a[i] != b[i] {
			return false
		}
	}
	return true
}

func cmpRef(a, b []int) int {
	for i := range a {
		if a[i] < b[i] {
			return -1
		}
		if a[i] > b[i] {
			return 1
		}
	}
	return 0
}

func sign(n int) int {
	switch {
	case n < 0:
		return -1
	case n > 0:
		return 1
	}
	return 0
}

func pairs(n int) [][2][]int {
	vs := variants(n)
	var out [][2][]int
	for i, v := range vs {
		out = append(out, [2][]int{vs[0], v}, [2][]int{v, vs[0]})
		if i+1 < len(vs) {
			out = append(out, [2][]int{v, vs[i+1]}, [2][]int{vs[i+1], v})
		}
	}
	return out
}

// CheckEq: TupleN(e1..eN).Eqv is the conjunction of the component equalities, instance i
// applied to component i only.
func CheckEq[TT any](t *T, n int, ins fp.Eq[TT]) {
	for _, p := range pairs(n) {
		got := ins.Eqv(mkTuple[TT](p[0]), mkTuple[TT](p[1]))
		t.FlushMisuse()
		if want := eqRef(p[0], p[1]); got != want {
			t.Fail("Eqv(%v, %v) = %v, component-wise equality gives %v", p[0], p[1], got, want)
		}
		t.Checks++
	}
	t.Obs = append(t.Obs, "eq")
}

// ordFullPrefix bounds the cost of the Ord battery: the library's ord.TupleN spends time
// exponential in the position of the first differing component (each level consults the next
// one several times), so the full battery (Less, Compare, Eqv, both directions) is applied
// to pairs whose first difference lies within the first ordFullPrefix positions, and a
// single Less to the pairs that first differ later. Every position and every pair of
// positions is still exercised at every arity.
const ordFullPrefix = 7
const ordFullPrefixThorough = 12

func firstDiff(a, b []int) int {
	for i := range a {
		if a[i] != b[i] {
			return i
		}
	}
	return -1
}

// CheckOrd: lexicographic order by position, instance i applied to component i only.
func CheckOrd[TT any](t *T, n int, ins fp.Ord[TT]) {
	full := func(p [2][]int) {
		a, b := mkTuple[TT](p[0]), mkTuple[TT](p[1])
		want := cmpRef(p[0], p[1])
		if got := ins.Less(a, b); got != (want < 0) {
			t.FlushMisuse()
			t.Fail("Less(%v, %v) = %v, the lexicographic order of the components gives %v", p[0], p[1], got, want < 0)
		}
		if got := sign(ins.Compare(a, b)); got != want {
			t.FlushMisuse()
			t.Fail("Compare(%v, %v) = %d, the lexicographic order of the components gives %d", p[0], p[1], got, want)
		}
		if got := ins.Eqv(a, b); got != (want == 0) {
			t.FlushMisuse()
			t.Fail("Eqv(%v, %v) = %v, component-wise equality gives %v", p[0], p[1], got, want == 0)
		}
		t.FlushMisuse()
		t.Checks++
	}
	fullPrefix := ordFullPrefix
	if t.X.Thorough() {
		fullPrefix = ordFullPrefixThorough
	}
	for _, p := range pairs(n) {
		if fd := firstDiff(p[0], p[1]); fd < fullPrefix {
			full(p)
		}
	}
	vs := variants(n)
	for i, v := range vs[1:] {
		if firstDiff(vs[0], v) < fullPrefix {
			continue
		}
		if i >= 2*n && i%2 == 1 {
			// of the two opposite changes at a late pair of positions one is enough: both say
			// "the earlier position decides"
			continue
		}
		want := cmpRef(vs[0], v) < 0
		if got := ins.Less(mkTuple[TT](vs[0]), mkTuple[TT](v)); got != want {
			t.FlushMisuse()
			t.Fail("Less(%v, %v) = %v, the lexicographic order of the components gives %v", vs[0], v, got, want)
		}
		t.FlushMisuse()
		t.Checks++
	}
	t.Obs = append(t.Obs, "ord")
}

// CheckHash: hashing a tuple hashes every component exactly once with its own instance;
// equal tuples hash equally; Eqv is component-wise. The combining function is not prescribed.
func CheckHash[TT any](t *T, n int, ins fp.Hashable[TT]) {
	for _, p := range pairs(n) {
		got := ins.Eqv(mkTuple[TT](p[0]), mkTuple[TT](p[1]))
		t.FlushMisuse()
		if want := eqRef(p[0], p[1]); got != want {
			t.Fail("Eqv(%v, %v) = %v, component-wise equality gives %v", p[0], p[1], got, want)
		}
		t.Checks++
	}
	t.Log = nil
	for _, v := range variants(n)[:1+2*n] {
		h1 := ins.Hash(mkTuple[TT](v))
		var want []string
		for i, c := range v {
			want = append(want, Ent(fmt.Sprintf("hash%d", i+1), c))
		}
		t.LogSet(fmt.Sprintf("Hash(%v)", v), want...)
		h2 := ins.Hash(mkTuple[TT](v))
		t.Log = nil
		if h1 != h2 {
			t.Fail("Hash(%v) returned %d and then %d for the same tuple", v, h1, h2)
		}
	}
}

// CheckMonoid: Empty and Combine are component-wise, operand order preserved.
func CheckMonoid[TT any](t *T, n int, ins fp.Monoid[TT]) {
	var e []int
	for i := 1; i <= n; i++ {
		e = append(e, 100*i+9)
	}
	t.Eq("Empty()", ins.Empty(), mkTuple[TT](e))
	t.Log = nil
	vs := variants(n)
	for _, p := range [][2][]int{{vs[1], vs[2]}, {vs[2], vs[1]}, {vs[0], e}, {e, vs[len(vs)-1]}} {
		got := ins.Combine(mkTuple[TT](p[0]), mkTuple[TT](p[1]))
		var want []int
		var wl []string
		for i := range p[0] {
			want = append(want, combineRef(i+1, p[0][i], p[1][i]))
			wl = append(wl, Ent(fmt.Sprintf("combine%d", i+1), p[0][i], p[1][i]))
		}
		t.Eq(fmt.Sprintf("Combine(%v, %v)", p[0], p[1]), got, mkTuple[TT](want))
		t.LogSet(fmt.Sprintf("Combine(%v, %v)", p[0], p[1]), wl...)
	}
}

// CheckClone: every component is cloned exactly once by its own instance.
func CheckClone[TT any](t *T, n int, ins fp.Clone[TT]) {
	for _, v := range variants(n)[:3] {
		got := ins.Clone(mkTuple[TT](v))
		var want []int
		var wl []string
		for i, c := range v {
			want = append(want, c+50)
			wl = append(wl, Ent(fmt.Sprintf("clone%d", i+1), c))
		}
		t.Eq(fmt.Sprintf("Clone(%v)", v), got, mkTuple[TT](want))
		t.LogSet(fmt.Sprintf("Clone(%v)", v), wl...)
	}
}
