// C14 — arity-indexed families compute their defining equation at every arity.
//
// zz_generated.go and zz/<package>/zz_generated.go are produced by gen/main.go (run by prebuild.sh before every build) from a
// go/parser scan of the exported API of the tree under test: one driver per member NameN of
// every family of the property statement, at every arity at which it exists, instantiated
// (D) with pairwise distinct named argument types, (I) with all-int position-tagged
// arguments and, for the effectful families, (nil) with nilable types and a one-hot nil walk, and compared with the defining expression written out directly.
package main

import (
	"fmt"
	"sort"
	"strings"

	"verif/harness/c14/sup"
	"verif/mc"
)

func main() {
	mc.Main("C14", func(r *mc.Registry) {
		r.Rule = "one scenario per package; leaf = (member NameN found by the scan of the current tree, instantiation D|I|nil): " +
			"the member is called on position-tagged arguments (argument/component i carries 100*i+k; D: pairwise distinct named types P1..P21 / L1..L21, " +
			"I: one shared type; nil, effectful families only: nilable types, for each position i argument i nil and the others tagged, and once a nil callback result) and every result and every tagged-callback log is compared with the defining expression written directly in the driver; " +
			"non-trivial = at least one comparison was made and the member has at least two position-distinguishable arguments; " +
			"distinct = distinct (results, callback logs) observation"
		r.Assumptions = []string{
			"parametricity: a generic member cannot inspect its arguments, so one position-tagged run per arity and instantiation covers all inputs of that arity",
			"non-arity-indexed primitives used to build inputs and references (struct literals of fp.TupleN/LabelledN, hlist.Concat/Empty/Head/Tail, fp.Some/Success, future.Successful, fp.EqFunc/CompareFunc/CloneFunc) are correct",
			"future.* members are driven with already completed operands and a synchronous executor; where a member goes through the default (goroutine) executor internally the result is awaited; callback order there is fixed by data dependencies",
			"a member whose signature no longer type-checks against its defining equation is reported by prebuild.sh as a failing stub driver (key <member>), not as a build failure",
		}
		byPkg := map[string][]sup.Member{}
		var pkgs []string
		fam := map[string][]int{}
		for _, m := range members {
			p := m.Name[:strings.Index(m.Name, ".")]
			if _, ok := byPkg[p]; !ok {
				pkgs = append(pkgs, p)
			}
			byPkg[p] = append(byPkg[p], m)
			fam[m.Family] = append(fam[m.Family], m.N)
		}
		sort.Strings(pkgs)
		for _, p := range pkgs {
			list := byPkg[p]
			sc := r.Seq(p, func(x *mc.X) {
				m := list[x.Choose(len(list), "member")]
				var modes []string
				if m.D != nil {
					modes = append(modes, "distinct")
				}
				if m.I != nil {
					modes = append(modes, "int")
				}
				if m.Nil != nil {
					modes = append(modes, "nil")
				}
				mode := modes[x.Choose(len(modes), "instantiation")]
				x.Logf("member %s (%s), %s instantiation", m.Name, m.Family, mode)
				t := &sup.T{X: x, Member: m.Name, Mode: mode}
				var pv any
				switch mode {
				case "distinct":
					pv = mc.Catch(func() { m.D(t) })
				case "int":
					pv = mc.Catch(func() { m.I(t) })
				default:
					pv = mc.Catch(func() { m.Nil(t) })
				}
				if pv != nil {
					t.Fail("panicked: %v", pv)
				}
				t.FlushMisuse()
				if len(t.Log) != 0 {
					t.Fail("callbacks invoked that the defining equation does not invoke: %v", t.Log)
				}
				if t.Checks == 0 {
					t.Fail("internal: driver made no comparison")
				}
				x.Tag(m.Family)
				x.Tag("instantiation:" + mode)
				x.Tag(fmt.Sprintf("arity:%02d", m.Arity))
				if m.Arity >= 2 {
					x.NonTrivial()
				}
				x.Observe(m.Name, mode, t.Obs)
			})
			sc.SplitDepth = 1
		}
		// coverage catalogue
		fams := map[string]string{}
		for f, as := range fam {
			sort.Ints(as)
			fams[f] = compactInts(as)
		}
		r.Extra["families_covered"] = fams
		r.Extra["members_covered"] = len(members)
		r.Extra["uncovered"] = uncovered
		r.Extra["stubbed_members"] = stubbed
		// builder families: the distinct-type drivers are type-checked by prebuild.sh (go vet of
		// zz/<pkg>_dtypes) but not linked: every (arity, step) of a builder chain is a separate
		// instantiation of MonadChainK/Future/Try with all its methods and the second set would
		// double the compile time; their behaviour is executed in the int instantiation
		r.Extra["distinct_instantiation_typechecked_only"] = typecheckedOnlyD
		r.Extra["nil_instantiation_not_applied"] = []string{
			"future ApplicativeN/ChainN builders and their methods (a third set of builder instantiations costs more compile time than the budget allows; option and try builders have it)",
			"MonadChainN.HListMap/HListFlatMap (the accumulated hlist has unexported fields: nilable components cannot be described)",
			"try.PtrN / try.CurriedPtrN (documented: a nil result is a failure)",
			"families outside option/try/future (no effect type that could swallow a nil)",
		}
		r.Extra["bounds"] = map[string]any{
			"arity": "every arity at which a member exists in the scanned tree (no bound other than the library's own limits)",
			"instantiations": []string{"distinct (P1..P21 / L1..L21)", "int (one shared type, position tags 100*i+k)",
				"nil (effectful families option/try/future: argument types *int, []int, map[string]int, func() int, any by position, result *PR; one-hot walk: for each position i argument i is nil and the others are tagged non-nil values, plus one run in which the callback returns nil; the defining equation is written with fp.Some / fp.Success / future.Successful)"},
		}
	})
}

func compactInts(as []int) string {
	var parts []string
	for i := 0; i < len(as); {
		j := i
		for j+1 < len(as) && (as[j+1] == as[j]+1 || as[j+1] == as[j]) {
			j++
		}
		if as[j] == as[i] {
			parts = append(parts, fmt.Sprint(as[i]))
		} else {
			parts = append(parts, fmt.Sprintf("%d..%d", as[i], as[j]))
		}
		i = j + 1
	}
	return strings.Join(parts, ",")
}
