#!/bin/bash
# C14 prebuild (run by vcheck before `go build ./harness/c14`): $1 = scratch dir, $2 = tier.
#
# 1. regenerates zz_generated.go and zz/<package>/zz_generated.go from the *current* tree
#    (VERIF_REPO, default /repo) with gen/main.go (go/parser scan of the exported API);
# 2. type-checks the distinct-type drivers that are not linked (zz/*_dtypes, go vet) and
#    probe-builds the harness (this also warms the build cache for vcheck's own build);
# 3. if a generated driver does not type-check - a member's signature no longer fits its
#    defining equation - the member is replaced by a stub driver that reports exactly that as
#    a violation of the member (key = member name), and the build is retried. Only an error
#    that cannot be attributed to a member is a build failure (exit 1 -> vcheck exits 2).
#
# The generated files live in this directory, so two C14 checks must not run concurrently.
set -u
SCRATCH="$1"
HERE="$(cd "$(dirname "$0")" && pwd)"
VERIF="$(cd "$HERE/../.." && pwd)"
REPO="${VERIF_REPO:-/repo}"
export GOFLAGS="${GOFLAGS:--mod=mod}" GOPROXY=off GOSUMDB=off GOTOOLCHAIN=local
cd "$VERIF" || exit 1
MODFILE="$SCRATCH/go.mod"
if [ ! -f "$MODFILE" ]; then
  sed "s#=> /repo#=> $REPO#" "$VERIF/go.mod" > "$MODFILE"
  cp "$REPO/go.sum" "$SCRATCH/go.sum"
fi
GEN="$SCRATCH/c14gen"
go build -modfile "$MODFILE" -o "$GEN" ./harness/c14/gen || { echo "c14 prebuild: cannot build the generator" >&2; exit 1; }
STUBS="$SCRATCH/c14-stubs.txt"
LOG="$SCRATCH/c14-build.log"
: > "$STUBS"
for attempt in 1 2 3 4 5 6 7 8 9 10 11 12; do
  "$GEN" -repo "$REPO" -outdir "$HERE" -stubs "$STUBS" || exit 1
  : > "$LOG"
  ok=1
  DT=$(ls -d "$HERE"/zz/*_dtypes 2>/dev/null | sed "s#^$VERIF/#./#")
  if [ -n "$DT" ]; then
    go vet -modfile "$MODFILE" $DT >> "$LOG" 2>&1 || ok=0
  fi
  go build -modfile "$MODFILE" -o "$SCRATCH/c14-probe" ./harness/c14 >> "$LOG" 2>&1 || ok=0
  rm -f "$SCRATCH/c14-probe"
  if [ $ok = 1 ]; then
    exit 0
  fi
  "$GEN" -fix "$LOG" -outdir "$HERE" -stubs "$STUBS" || { cat "$LOG" >&2; echo "c14 prebuild: build errors that cannot be attributed to a member driver" >&2; exit 1; }
done
cat "$LOG" >&2
echo "c14 prebuild: still failing after 12 rounds of stubbing" >&2
exit 1
