// Generator of the C14 drivers.
//
//	go run ./harness/c14/gen -repo /repo -out harness/c14/zz_generated.go [-stubs file]
//	go run ./harness/c14/gen -fix build.log -out harness/c14/zz_generated.go -stubs file
//
// It scans the exported API of the tree under test with go/parser for arity-indexed members
// (functions NameN / NameNSuffix, methods of arity-indexed types), groups them into families
// and emits, for every member a rule covers, a driver in two instantiations. Members no rule
// covers are listed in `uncovered` (evidence only, not a violation).
//
// -fix reads a failed `go build` log of the harness, maps every error inside
// zz_generated.go to the member whose driver contains it and appends those members to the
// stubs file; stubbed members get a driver that reports the type error as a violation of
// that member (its signature no longer fits the defining equation) instead of breaking the build.
package main

import (
	"bufio"
	"bytes"
	"flag"
	"fmt"
	"go/ast"
	"go/format"
	"go/parser"
	"go/token"
	"os"
	"path/filepath"
	"regexp"
	"sort"
	"strconv"
	"strings"
)

// ---------------------------------------------------------------- scan

type Member struct {
	Pkg      string // package alias: "fp", "as", ...
	Path     string // import path
	Recv     string // receiver type name or ""
	RecvBase string
	RecvN    int // -1 when the receiver is not arity-indexed
	Name     string
	Base     string
	N        int // -1 when the name is not arity-indexed
	Suffix   string
	TParams  int // type parameters of the function, or of the receiver type for methods
	Params   int
	Variadic bool
}

var idxRe = regexp.MustCompile(`^([A-Za-z_]+?)(\d+)([A-Za-z_]*)$`)

func splitIdx(name string) (string, int, string) {
	m := idxRe.FindStringSubmatch(name)
	if m == nil {
		return name, -1, ""
	}
	n, _ := strconv.Atoi(m[2])
	if n > 22 {
		return name, -1, ""
	}
	return m[1], n, m[3]
}

func (m *Member) Family() string {
	nm := m.Base
	if m.N >= 0 {
		nm += "N" + m.Suffix
	}
	if m.Recv != "" {
		r := m.RecvBase
		if m.RecvN >= 0 {
			r += "N"
		}
		return m.Pkg + "." + r + "." + nm
	}
	return m.Pkg + "." + nm
}

func (m *Member) Full() string {
	if m.Recv != "" {
		return m.Pkg + "." + m.Recv + "." + m.Name
	}
	return m.Pkg + "." + m.Name
}

// Index is the arity index shown in the catalogue.
func (m *Member) Index() int {
	if m.Recv != "" && m.RecvN >= 0 {
		return m.RecvN
	}
	return m.N
}

func recvName(e ast.Expr) string {
	switch t := e.(type) {
	case *ast.StarExpr:
		return recvName(t.X)
	case *ast.Ident:
		return t.Name
	case *ast.IndexExpr:
		return recvName(t.X)
	case *ast.IndexListExpr:
		return recvName(t.X)
	}
	return ""
}

func countFields(fl *ast.FieldList) int {
	if fl == nil {
		return 0
	}
	n := 0
	for _, f := range fl.List {
		if len(f.Names) == 0 {
			n++
		} else {
			n += len(f.Names)
		}
	}
	return n
}

func scan(root string) ([]*Member, error) {
	var out []*Member
	typeTP := map[string]int{}
	type pend struct {
		m  *Member
		tn string
	}
	var pending []pend
	err := filepath.Walk(root, func(p string, info os.FileInfo, err error) error {
		if err != nil {
			return err
		}
		if info.IsDir() {
			b := info.Name()
			if p != root && (strings.HasPrefix(b, ".") || strings.HasPrefix(b, "_") || b == "cmd" || b == "internal" || b == "test" || b == "testdata" || b == "vendor") {
				return filepath.SkipDir
			}
			return nil
		}
		if !strings.HasSuffix(p, ".go") || strings.HasSuffix(p, "_test.go") {
			return nil
		}
		fset := token.NewFileSet()
		f, err := parser.ParseFile(fset, p, nil, parser.SkipObjectResolution)
		if err != nil {
			return fmt.Errorf("parse %s: %v", p, err)
		}
		if f.Name.Name == "main" {
			return nil
		}
		rel, _ := filepath.Rel(root, filepath.Dir(p))
		rel = filepath.ToSlash(rel)
		pkg, path := "fp", "github.com/csgura/fp"
		if rel != "." {
			pkg = rel[strings.LastIndex(rel, "/")+1:]
			path += "/" + rel
		}
		for _, d := range f.Decls {
			switch d := d.(type) {
			case *ast.GenDecl:
				for _, s := range d.Specs {
					if ts, ok := s.(*ast.TypeSpec); ok {
						typeTP[pkg+"."+ts.Name.Name] = countFields(ts.TypeParams)
					}
				}
			case *ast.FuncDecl:
				if !ast.IsExported(d.Name.Name) {
					continue
				}
				m := &Member{Pkg: pkg, Path: path, Name: d.Name.Name, RecvN: -1}
				m.Base, m.N, m.Suffix = splitIdx(m.Name)
				m.Params = countFields(d.Type.Params)
				if pl := d.Type.Params; pl != nil && len(pl.List) > 0 {
					_, m.Variadic = pl.List[len(pl.List)-1].Type.(*ast.Ellipsis)
				}
				if d.Recv != nil && len(d.Recv.List) > 0 {
					m.Recv = recvName(d.Recv.List[0].Type)
					if !ast.IsExported(m.Recv) {
						continue
					}
					m.RecvBase, m.RecvN, _ = splitIdx(m.Recv)
					if m.RecvN < 0 {
						m.RecvBase = m.Recv
					}
					pending = append(pending, pend{m, pkg + "." + m.Recv})
				} else {
					m.TParams = countFields(d.Type.TypeParams)
				}
				if m.N < 0 && m.RecvN < 0 {
					if !(m.Recv == "" && baseNames[m.Name] && (pkg == "option" || pkg == "try" || pkg == "future")) {
						continue
					}
				}
				out = append(out, m)
			}
		}
		return nil
	})
	for _, p := range pending {
		p.m.TParams = typeTP[p.tn]
	}
	sort.Slice(out, func(i, j int) bool {
		a, b := out[i], out[j]
		if a.Pkg != b.Pkg {
			return a.Pkg < b.Pkg
		}
		if a.Family() != b.Family() {
			return a.Family() < b.Family()
		}
		if a.Index() != b.Index() {
			return a.Index() < b.Index()
		}
		return a.Full() < b.Full()
	})
	return out, err
}

// ---------------------------------------------------------------- emit helpers

type G struct {
	buf  bytes.Buffer
	intM bool
	lab  bool
	// rev > 0: position i (1..rev) has the distinct type number rev-i+1, so that the types of
	// a tail (positions 2..N) coincide with the types the driver of arity N-1 uses: the
	// library's arity N usually delegates to arity N-1 on the tail, and the instantiations are
	// then shared instead of growing quadratically (compile time only; values stay 100*i+1).
	rev int
	// typeOnly: this driver is only type-checked (go vet of zz/<pkg>_dtypes in prebuild.sh),
	// not compiled into the harness binary; see the comment at ruleBuilder.
	typeOnly bool
	// nilM: the nilable instantiation (see nilTypes); closers counts the loop braces vals opened
	nilM    bool
	closers int
	have map[string]*Member
	imp  map[string]bool
}

// nilTypes: argument types of the nilable instantiation, by position.
var nilTypes = []string{"*int", "[]int", "map[string]int", "func() int", "any"}

func (g *G) nilVal(i int) string {
	v := 100*i + 1
	switch (i - 1) % 5 {
	case 0:
		return fmt.Sprintf("PtrI(%d)", v)
	case 1:
		return fmt.Sprintf("[]int{%d}", v)
	case 2:
		return fmt.Sprintf("map[string]int{\"k\": %d}", v)
	case 3:
		return fmt.Sprintf("Fn(%d)", v)
	}
	return fmt.Sprintf("any(%d)", v)
}

func (g *G) R() string {
	if g.nilM {
		return "*PR"
	}
	return "PR"
}

func (g *G) call(args string) string {
	if g.nilM {
		return fmt.Sprintf("t.CallP(\"f\", nilRes%s)", commaPrefix(args))
	}
	return fmt.Sprintf("t.Call(\"f\"%s)", commaPrefix(args))
}

func (g *G) res(args string) string {
	if g.nilM {
		return fmt.Sprintf("ResP(\"f\", nilRes%s)", commaPrefix(args))
	}
	return fmt.Sprintf("Res(\"f\"%s)", commaPrefix(args))
}

func (g *G) T(i int) string {
	if g.nilM {
		return nilTypes[(i-1)%5]
	}
	if g.rev > 0 && i >= 1 && i <= g.rev {
		i = g.rev - i + 1
	}
	if g.lab {
		if g.intM {
			return "LI"
		}
		return fmt.Sprintf("L%d", i)
	}
	if g.intM {
		return "int"
	}
	return fmt.Sprintf("P%d", i)
}

func (g *G) pf(format string, a ...any) {
	g.buf.WriteByte('\t')
	fmt.Fprintf(&g.buf, format, a...)
	g.buf.WriteByte('\n')
}

func list(lo, hi int, f func(i int) string) string {
	var s []string
	for i := lo; i <= hi; i++ {
		s = append(s, f(i))
	}
	return strings.Join(s, ", ")
}

func rlist(hi, lo int, f func(i int) string) string {
	var s []string
	for i := hi; i >= lo; i-- {
		s = append(s, f(i))
	}
	return strings.Join(s, ", ")
}

func A(lo, hi int) string  { return list(lo, hi, func(i int) string { return fmt.Sprintf("a%d", i) }) }
func Bs(lo, hi int) string { return list(lo, hi, func(i int) string { return fmt.Sprintf("b%d", i) }) }
func (g *G) Ts(lo, hi int) string {
	return list(lo, hi, g.T)
}
func (g *G) Bdecl(lo, hi int) string {
	return list(lo, hi, func(i int) string { return fmt.Sprintf("b%d %s", i, g.T(i)) })
}

// vals declares the position-tagged values a_lo..a_hi.
func (g *G) vals(lo, hi int) {
	if g.nilM {
		// one-hot nil walk: hot = 0 none, 1..hi argument hot is nil, hi+1 the callback returns nil
		g.pf("for hot := 0; hot <= %d; hot++ {", hi+1)
		g.closers++
		g.pf("nilRes := hot == %d", hi+1)
		g.pf("_ = nilRes")
		g.pf("t.Hot(hot, %d)", hi)
		for i := lo; i <= hi; i++ {
			g.pf("a%d := %s", i, g.nilVal(i))
		}
		if hi >= lo {
			g.pf("switch hot {")
			for i := lo; i <= hi; i++ {
				g.pf("case %d:", i)
				g.pf("a%d = nil", i)
			}
			g.pf("}")
		}
		return
	}
	if g.rev == 0 {
		g.rev = hi
	}
	for i := lo; i <= hi; i++ {
		g.pf("a%d := %s(%d)", i, g.T(i), 100*i+1)
	}
}

// f declares the tagged n-ary callback `name` over parameter positions lo..hi returning PR.
func (g *G) fn(name string, lo, hi int) {
	g.pf("%s := func(%s) %s { return %s }", name, g.Bdecl(lo, hi), g.R(), g.call(Bs(lo, hi)))
}

func commaPrefix(s string) string {
	if s == "" {
		return ""
	}
	return ", " + s
}

func (g *G) tupT(kind string, lo, hi int) string {
	return fmt.Sprintf("fp.%s%d[%s]", kind, hi-lo+1, g.Ts(lo, hi))
}

func (g *G) tupLit(kind string, lo, hi int, v func(i int) string) string {
	k := 0
	return fmt.Sprintf("%s{%s}", g.tupT(kind, lo, hi), list(lo, hi, func(i int) string { k++; return fmt.Sprintf("I%d: %s", k, v(i)) }))
}

func av(i int) string { return fmt.Sprintf("a%d", i) }
func bv(i int) string { return fmt.Sprintf("b%d", i) }

// consT / consV: the hlist of the given positions (in this order), ending in Nil.
func (g *G) consT(idx []int) string {
	s := "hlist.Nil"
	for k := len(idx) - 1; k >= 0; k-- {
		s = fmt.Sprintf("hlist.Cons[%s, %s]", g.T(idx[k]), s)
	}
	return s
}

func consV(idx []int) string {
	s := "hlist.Empty()"
	for k := len(idx) - 1; k >= 0; k-- {
		s = fmt.Sprintf("hlist.Concat(a%d, %s)", idx[k], s)
	}
	return s
}

func seqI(lo, hi int) []int {
	var s []int
	if lo <= hi {
		for i := lo; i <= hi; i++ {
			s = append(s, i)
		}
	} else {
		for i := lo; i >= hi; i-- {
			s = append(s, i)
		}
	}
	return s
}

// curT: the curried function type over the positions idx with final result r.
func (g *G) curT(idx []int, r string) string {
	s := r
	for k := len(idx) - 1; k >= 0; k-- {
		s = fmt.Sprintf("fp.Func1[%s, %s]", g.T(idx[k]), s)
	}
	return s
}

// curLit: a curried literal over positions idx (parameter names b<i>) whose innermost body is expr.
func (g *G) curLit(idx []int, r string, expr string) string {
	var sb strings.Builder
	for k, i := range idx {
		fmt.Fprintf(&sb, "func(b%d %s) %s { return ", i, g.T(i), g.curT(idx[k+1:], r))
	}
	sb.WriteString(expr)
	for range idx {
		sb.WriteString(" }")
	}
	return sb.String()
}

func curCall(idx []int) string {
	var sb strings.Builder
	for _, i := range idx {
		fmt.Fprintf(&sb, "(a%d)", i)
	}
	return sb.String()
}

func (g *G) use(pkgs ...string) {
	for _, p := range pkgs {
		g.imp[p] = true
	}
}

// ---------------------------------------------------------------- rules

type rule func(g *G, m *Member) bool

var rules = map[string]rule{}

// nilOK: families that also get the nilable instantiation.
var nilOK = map[string]bool{}

// baseNames: members of the effectful packages that are not arity-indexed but belong to the
// Flap family (arity 1 / 2 of FlapN / MethodN).
var baseNames = map[string]bool{"Flap": true, "FlapMap": true, "FlatFlapMap": true, "With": true}

func init() {
	// ---- fp: products
	for _, kind := range []string{"Tuple", "Labelled"} {
		kind := kind
		for _, meth := range []string{"Head", "Last", "Init", "Tail", "Unapply", "String"} {
			meth := meth
			rules["fp."+kind+"N."+meth] = func(g *G, m *Member) bool { return ruleAccessor(g, m, kind, meth) }
		}
	}
	// ---- fp: functions
	rules["fp.FuncN.ApplyFirstN"] = ruleApplyFirst
	rules["fp.FuncN.ApplyFirst"] = ruleApplyFirst
	rules["fp.FuncN.ApplyLastN"] = ruleApplyLast
	rules["fp.FuncN.ApplyLast"] = ruleApplyLast
	rules["fp.FuncN.Widen"] = ruleWiden
	rules["fp.FuncN.Apply"] = ruleFunc0Apply
	rules["fp.ComposeN"] = func(g *G, m *Member) bool { return ruleCompose(g, m, nil) }
	rules["fp.IdN"] = ruleId
	rules["fp.FlipN"] = ruleFpFlip2
	// ---- as
	rules["as.TupleN"] = func(g *G, m *Member) bool { return ruleMkProduct(g, m, "Tuple") }
	rules["as.LabelledN"] = func(g *G, m *Member) bool { return ruleMkProduct(g, m, "Labelled") }
	rules["product.TupleN"] = rules["as.TupleN"]
	rules["as.CurriedN"] = ruleCurry
	rules["curried.FuncN"] = ruleCurry
	rules["as.UnTupledN"] = ruleUnTupled
	rules["as.TupledN"] = ruleTupled
	rules["as.HListN"] = func(g *G, m *Member) bool { return ruleAsHList(g, m, "Tuple") }
	rules["as.HListNLabelled"] = func(g *G, m *Member) bool { return ruleAsHList(g, m, "Labelled") }
	rules["as.FuncN"] = ruleAsFunc
	rules["as.SupplierN"] = ruleSupplier
	// ---- curried
	rules["curried.RevertN"] = ruleRevert
	rules["curried.FlipN"] = ruleFlip
	rules["curried.FlipApplyN"] = ruleFlipApply
	rules["curried.SlipLN"] = ruleSlipL
	rules["curried.ComposeN"] = ruleCurriedCompose
	// ---- hlist
	rules["hlist.OfN"] = ruleHOf
	rules["hlist.CaseN"] = ruleHCase
	rules["hlist.LiftN"] = func(g *G, m *Member) bool { return ruleHLift(g, m, false) }
	rules["hlist.RiftN"] = func(g *G, m *Member) bool { return ruleHLift(g, m, true) }
	rules["hlist.ReverseN"] = ruleHReverse
	// ---- product
	rules["product.TupleFromHListN"] = func(g *G, m *Member) bool { return ruleFromHList(g, m, "Tuple") }
	rules["product.LabelledFromHListN"] = func(g *G, m *Member) bool { return ruleFromHList(g, m, "Labelled") }
	rules["product.FlattenN"] = ruleFlatten
	rules["product.LiftN"] = ruleProductLift
	// ---- fn1, unit
	rules["fn1.MergeN"] = ruleMerge
	rules["unit.FuncN"] = ruleUnitFunc
	// ---- type classes
	for _, tc := range []string{"eq", "ord", "hash", "monoid", "clone"} {
		tc := tc
		rules[tc+".TupleN"] = func(g *G, m *Member) bool { return ruleTypeclass(g, m, tc) }
	}
	// ---- monads
	for _, mo := range monads {
		mo := mo
		p := mo.pkg
		rules[p+".LiftAN"] = func(g *G, m *Member) bool { return ruleLift(g, m, mo, false, "lift") }
		rules[p+".LiftMN"] = func(g *G, m *Member) bool { return ruleLift(g, m, mo, true, "lift") }
		rules[p+".MapN"] = func(g *G, m *Member) bool { return ruleLift(g, m, mo, false, "map") }
		rules[p+".FlatMapN"] = func(g *G, m *Member) bool { return ruleLift(g, m, mo, true, "map") }
		rules[p+".FlapN"] = func(g *G, m *Member) bool { return ruleFlap(g, m, mo) }
		rules[p+".MethodN"] = func(g *G, m *Member) bool { return ruleMethod(g, m, mo, false) }
		rules[p+".FlatMethodN"] = func(g *G, m *Member) bool { return ruleMethod(g, m, mo, true) }
		rules[p+".ComposeN"] = func(g *G, m *Member) bool { return ruleCompose(g, m, mo) }
		rules[p+".ZipN"] = func(g *G, m *Member) bool { return ruleZip(g, m, mo) }
		rules[p+".ApplicativeN"] = func(g *G, m *Member) bool { return ruleBuilder(g, m, mo, "Applicative", "") }
		rules[p+".ChainN"] = func(g *G, m *Member) bool { return ruleBuilder(g, m, mo, "Chain", "") }
		for _, v := range mo.aps {
			v := v
			rules[p+".ApplicativeFunctorN."+v] = func(g *G, m *Member) bool { return ruleBuilder(g, m, mo, "Applicative", v) }
			rules[p+".MonadChainN."+v] = func(g *G, m *Member) bool { return ruleBuilder(g, m, mo, "Chain", v) }
		}
		for _, v := range []string{"Map", "FlatMap", "HListMap", "HListFlatMap"} {
			v := v
			rules[p+".MonadChainN."+v] = func(g *G, m *Member) bool { return ruleBuilder(g, m, mo, "Chain", v) }
		}
		for b := range baseNames {
			rules[p+"."+b] = func(g *G, m *Member) bool { return ruleBase(g, m, mo) }
		}
		for f := range rules {
			if strings.HasPrefix(f, p+".") {
				nilOK[f] = true
			}
		}
	}
	for _, f := range []string{"option.PureN", "try.PureN", "try.FuncN", "try.UnitN", "try.CurriedN", "try.CurriedPureN", "try.CurriedUnitN", "future.FuncN", "future.UnitN"} {
		nilOK[f] = true
	}
	rules["option.PureN"] = func(g *G, m *Member) bool { return ruleMFunc(g, m, monads[0], "pure", false) }
	rules["try.PureN"] = func(g *G, m *Member) bool { return ruleMFunc(g, m, monads[1], "pure", false) }
	rules["try.FuncN"] = func(g *G, m *Member) bool { return ruleMFunc(g, m, monads[1], "func", false) }
	rules["try.UnitN"] = func(g *G, m *Member) bool { return ruleMFunc(g, m, monads[1], "unit", false) }
	rules["try.PtrN"] = func(g *G, m *Member) bool { return ruleMFunc(g, m, monads[1], "ptr", false) }
	rules["try.CurriedN"] = func(g *G, m *Member) bool { return ruleMFunc(g, m, monads[1], "func", true) }
	rules["try.CurriedPureN"] = func(g *G, m *Member) bool { return ruleMFunc(g, m, monads[1], "pure", true) }
	rules["try.CurriedUnitN"] = func(g *G, m *Member) bool { return ruleMFunc(g, m, monads[1], "unit", true) }
	rules["try.CurriedPtrN"] = func(g *G, m *Member) bool { return ruleMFunc(g, m, monads[1], "ptr", true) }
	rules["future.FuncN"] = func(g *G, m *Member) bool { return ruleMFunc(g, m, monads[2], "func", false) }
	rules["future.UnitN"] = func(g *G, m *Member) bool { return ruleMFunc(g, m, monads[2], "unit", false) }
}

// ---- products

func ruleAccessor(g *G, m *Member, kind, meth string) bool {
	n := m.RecvN
	if n < 1 {
		return false
	}
	g.lab = kind == "Labelled"
	g.use("fp")
	g.vals(1, n)
	g.pf("tup := %s", g.tupLit(kind, 1, n, av))
	multi := func(lo, hi int) {
		cnt := hi - lo + 1
		gs := list(1, cnt, func(i int) string { return fmt.Sprintf("g%d", i) })
		g.pf("%s := tup.%s()", gs, meth)
		g.pf("t.Eqs(%q, []any{%s}, []any{%s})", meth+"()", gs, A(lo, hi))
	}
	switch meth {
	case "Head":
		g.pf("t.Eq(%q, tup.Head(), a1)", "Head()")
	case "Last":
		g.pf("t.Eq(%q, tup.Last(), a%d)", "Last()", n)
	case "Init":
		if n < 2 {
			return false
		}
		multi(1, n-1)
	case "Tail":
		if n == 1 {
			g.pf("t.Eq(%q, tup.Tail(), fp.Unit{})", "Tail()")
		} else {
			multi(2, n)
		}
	case "Unapply":
		multi(1, n)
	case "String":
		g.pf("t.Nums(%q, tup.String(), %s)", "String()", list(1, n, func(i int) string { return strconv.Itoa(100*i + 1) }))
	}
	return true
}

func ruleMkProduct(g *G, m *Member, kind string) bool {
	n := m.N
	if n < 1 || m.Params != n {
		return false
	}
	g.lab = kind == "Labelled"
	g.use("fp", m.Pkg)
	g.vals(1, n)
	g.pf("t.Eq(%q, %s.%s(%s), %s)", m.Name+"(a1..)", m.Pkg, m.Name, A(1, n), g.tupLit(kind, 1, n, av))
	return true
}

func ruleAsHList(g *G, m *Member, kind string) bool {
	n := m.N
	if n < 1 {
		return false
	}
	g.lab = kind == "Labelled"
	g.use("fp", "as", "hlist")
	g.vals(1, n)
	g.pf("var want %s = %s", g.consT(seqI(1, n)), consV(seqI(1, n)))
	g.pf("t.Eq(%q, as.%s(%s), want)", m.Name+"(tuple)", m.Name, g.tupLit(kind, 1, n, av))
	return true
}

func ruleFromHList(g *G, m *Member, kind string) bool {
	n := m.N
	if n < 1 {
		return false
	}
	g.lab = kind == "Labelled"
	g.use("fp", "product", "hlist")
	g.vals(1, n)
	g.pf("var hl %s = %s", g.consT(seqI(1, n)), consV(seqI(1, n)))
	g.pf("t.Eq(%q, product.%s(hl), %s)", m.Name+"(hlist)", m.Name, g.tupLit(kind, 1, n, av))
	return true
}

func ruleFlatten(g *G, m *Member) bool {
	n := m.N
	if n < 3 {
		return false
	}
	g.use("fp", "product")
	g.vals(1, n)
	// Tuple2[A1, Tuple2[A2, ... Tuple2[A(n-1), An]]]
	typ := fmt.Sprintf("fp.Tuple2[%s, %s]", g.T(n-1), g.T(n))
	val := fmt.Sprintf("%s{I1: a%d, I2: a%d}", typ, n-1, n)
	for i := n - 2; i >= 1; i-- {
		nt := fmt.Sprintf("fp.Tuple2[%s, %s]", g.T(i), typ)
		val = fmt.Sprintf("%s{I1: a%d, I2: %s}", nt, i, val)
		typ = nt
	}
	g.pf("nested := %s", val)
	g.pf("t.Eq(%q, product.%s(nested), %s)", m.Name+"(nested)", m.Name, g.tupLit("Tuple", 1, n, av))
	return true
}

func ruleProductLift(g *G, m *Member) bool {
	n := m.N
	if n < 1 || m.TParams != n+1 {
		return false
	}
	g.use("fp", "product")
	g.vals(1, n)
	g.fn("f", 1, n)
	g.pf("got := product.%s(f)(%s)", m.Name, g.tupLit("Tuple", 1, n, av))
	g.pf("t.Eq(%q, got, %s)", m.Name+"(f)(tuple)", g.res(A(1, n)))
	g.pf("t.LogIs(\"calls\", Ent(\"f\", %s))", A(1, n))
	return true
}

// ---- plain functions

func fpFuncConv(g *G, n int) string {
	return fmt.Sprintf("fp.Func%d[%s, %s]", n, g.Ts(1, n), g.R())
}

func ruleApplyFirst(g *G, m *Member) bool {
	n := m.RecvN
	if n < 2 || (m.N >= 0 && m.N != n-1) || m.Params != n-1 {
		return false
	}
	g.use("fp")
	g.vals(1, n)
	g.pf("f := %s(func(%s) PR { return t.Call(\"f\", %s) })", fpFuncConv(g, n), g.Bdecl(1, n), Bs(1, n))
	g.pf("got := f.%s(%s)(a%d)", m.Name, A(1, n-1), n)
	g.pf("t.Eq(%q, got, %s)", "f."+m.Name+"(a1..)(aN)", g.res(A(1, n)))
	g.pf("t.LogIs(\"calls\", Ent(\"f\", %s))", A(1, n))
	return true
}

func ruleApplyLast(g *G, m *Member) bool {
	n := m.RecvN
	if n < 2 || (m.N >= 0 && m.N != n-1) || m.Params != n-1 {
		return false
	}
	g.use("fp")
	g.vals(1, n)
	g.pf("f := %s(func(%s) PR { return t.Call(\"f\", %s) })", fpFuncConv(g, n), g.Bdecl(1, n), Bs(1, n))
	g.pf("got := f.%s(%s)(a1)", m.Name, A(2, n))
	g.pf("t.Eq(%q, got, %s)", "f."+m.Name+"(a2..)(a1)", g.res(A(1, n)))
	g.pf("t.LogIs(\"calls\", Ent(\"f\", %s))", A(1, n))
	return true
}

func ruleWiden(g *G, m *Member) bool {
	n := m.RecvN
	if n < 1 || m.Params != 0 {
		return false
	}
	g.use("fp")
	g.vals(1, n)
	g.pf("f := %s(func(%s) PR { return t.Call(\"f\", %s) })", fpFuncConv(g, n), g.Bdecl(1, n), Bs(1, n))
	g.pf("got := f.Widen()(%s)", A(1, n))
	g.pf("t.Eq(%q, got, %s)", "f.Widen()(a1..)", g.res(A(1, n)))
	g.pf("t.LogIs(\"calls\", Ent(\"f\", %s))", A(1, n))
	return true
}

func ruleFunc0Apply(g *G, m *Member) bool {
	if m.RecvN != 0 || m.Params != 0 || g.intM {
		return false
	}
	g.use("fp")
	g.pf("f := fp.Func0[PR](func(fp.Unit) PR { return t.Call(\"f\") })")
	g.pf("t.Eq(\"f.Apply()\", f.Apply(), Res(\"f\"))")
	g.pf("t.LogIs(\"calls\", Ent(\"f\"))")
	return true
}

// ruleCompose: ComposeN(f1..fN)(a) = fN(..f1(a)); for a monad the Kleisli composition.
func ruleCompose(g *G, m *Member, mo *monad) bool {
	n := m.N
	if n < 2 || m.TParams != n+1 || m.Params < n {
		return false
	}
	if g.nilM {
		return ruleComposeNil(g, m, mo)
	}
	g.use("fp", m.Pkg)
	g.pf("a1 := %s(1)", g.T(1))
	var fs, wl []string
	w := 1
	for i := 1; i <= n; i++ {
		ret := fmt.Sprintf("%s(int(b)*10 + %d)", g.T(i+1), i)
		rt := g.T(i + 1)
		if mo != nil {
			ret = mo.pure(ret)
			rt = mo.typ + "[" + rt + "]"
			g.use(mo.deps...)
		}
		g.pf("f%d := func(b %s) %s { t.Rec(\"f%d\", b); return %s }", i, g.T(i), rt, i, ret)
		fs = append(fs, fmt.Sprintf("f%d", i))
		wl = append(wl, fmt.Sprintf("Ent(\"f%d\", %d)", i, w))
		w = w*10 + i
	}
	call := fmt.Sprintf("%s.%s(%s)(a1)", m.Pkg, m.Name, strings.Join(fs, ", "))
	if mo != nil {
		call = fmt.Sprintf("%s(t, %q, %s)", mo.val, m.Name+"(f1..)(a1)", call)
	}
	g.pf("got := %s", call)
	g.pf("t.Eq(%q, got, %s(%d))", m.Name+"(f1..)(a1)", g.T(n+1), w)
	g.pf("t.LogIs(\"calls\", %s)", strings.Join(wl, ", "))
	return true
}

// ruleComposeNil: Kleisli composition over nilable types; stage i maps the value of position i
// to the value of position i+1, so the one-hot walk makes the input (hot = 1) or the result
// of stage hot-1 nil; a nil must travel through the later stages and come out as M(nil).
func ruleComposeNil(g *G, m *Member, mo *monad) bool {
	if mo == nil {
		return false
	}
	n := m.N
	g.use("fp", m.Pkg)
	g.use(mo.deps...)
	g.vals(1, n+1)
	var fs, wl []string
	for i := 1; i <= n; i++ {
		g.pf("f%d := func(b %s) %s[%s] { t.Rec(\"f%d\", b); return %s }", i, g.T(i), mo.typ, g.T(i+1), i, mo.pure(av(i+1)))
		fs = append(fs, fmt.Sprintf("f%d", i))
		wl = append(wl, fmt.Sprintf("Ent(\"f%d\", a%d)", i, i))
	}
	g.pf("got := %s(t, %q, %s.%s(%s%s)(a1))", mo.val, m.Name+"(f1..)(a1)", m.Pkg, m.Name, strings.Join(fs, ", "), ex(m))
	g.pf("t.Eq(%q, got, a%d)", m.Name+"(f1..)(a1)", n+1)
	g.pf("t.LogIs(\"calls\", %s)", strings.Join(wl, ", "))
	return true
}

// base members of the Flap family that are not arity-indexed (arity 1 / 2): Flap, FlapMap,
// FlatFlapMap, With.
func ruleBase(g *G, m *Member, mo *monad) bool {
	g.use(mo.deps...)
	g.use(m.Pkg, "fp")
	switch m.Name {
	case "Flap":
		if m.TParams != 2 {
			return false
		}
		g.vals(1, 1)
		g.pf("var cf fp.Func1[%s, %s] = func(b1 %s) %s { return %s }", g.T(1), g.R(), g.T(1), g.R(), g.call("b1"))
		g.pf("got := %s(t, \"Flap\", %s.Flap(%s%s)(a1))", mo.val, m.Pkg, mo.pure("cf"), ex(m))
		g.pf("t.Eq(\"Flap(M(f))(a1)\", got, %s)", g.res("a1"))
		g.pf("t.LogIs(\"calls\", Ent(\"f\", a1))")
	case "FlapMap", "FlatFlapMap":
		if m.TParams != 3 {
			return false
		}
		g.vals(1, 2)
		if m.Name == "FlapMap" {
			g.fn("f", 1, 2)
		} else {
			g.pf("f := func(%s) %s[%s] { return %s }", g.Bdecl(1, 2), mo.typ, g.R(), mo.pure(g.call(Bs(1, 2))))
		}
		g.pf("got := %s(t, %q, %s.%s(f, %s%s)(a2))", mo.val, m.Name, m.Pkg, m.Name, mo.pure("a1"), ex(m))
		g.pf("t.Eq(%q, got, %s)", m.Name+"(f, M(a1))(a2)", g.res("a1, a2"))
		g.pf("t.LogIs(\"calls\", Ent(\"f\", a1, a2))")
	case "With":
		if m.TParams != 2 {
			return false
		}
		// With(withf, M(b))(a) = M(withf(a, b)); withf returns a value of a's type: position 3
		// carries the result (same nilable type as position 1 is not required: use type of a1)
		g.vals(1, 2)
		g.pf("r := %s", func() string {
			if g.nilM {
				return g.nilVal(1 + 5) // same type as position 1, different tag
			}
			return fmt.Sprintf("%s(777)", g.T(1))
		}())
		if g.nilM {
			g.pf("if nilRes { r = nil }")
		}
		g.pf("withf := func(b1 %s, b2 %s) %s { t.Rec(\"f\", b1, b2); return r }", g.T(1), g.T(2), g.T(1))
		g.pf("got := %s(t, \"With\", %s.With(withf, %s%s)(a1))", mo.val, m.Pkg, mo.pure("a2"), ex(m))
		g.pf("t.Eq(\"With(withf, M(a2))(a1)\", got, r)")
		g.pf("t.LogIs(\"calls\", Ent(\"f\", a1, a2))")
	default:
		return false
	}
	return true
}

func ruleId(g *G, m *Member) bool {
	n := m.N
	if n < 2 || m.Params != n {
		return false
	}
	g.use("fp")
	g.vals(1, n)
	g.pf("t.Eq(%q, fp.%s(%s), a%d)", m.Name+"(a1.., r)", m.Name, A(1, n), n)
	return true
}

func ruleFpFlip2(g *G, m *Member) bool {
	if m.N != 2 || m.TParams != 3 {
		return false
	}
	g.use("fp")
	g.vals(1, 2)
	g.fn("f", 1, 2)
	g.pf("t.Eq(\"Flip2(f)(a2)(a1)\", fp.Flip2(f)(a2)(a1), Res(\"f\", a1, a2))")
	g.pf("t.LogIs(\"calls\", Ent(\"f\", a1, a2))")
	return true
}

// ruleCurry: as.CurriedN / curried.FuncN: g(a1)..(aN) = f(a1..aN).
func ruleCurry(g *G, m *Member) bool {
	n := m.N
	if n < 1 || m.TParams != n+1 {
		return false
	}
	g.use("fp", m.Pkg)
	g.vals(1, n)
	g.fn("f", 1, n)
	g.pf("var c %s = %s.%s(f)", g.curT(seqI(1, n), "PR"), m.Pkg, m.Name)
	g.pf("t.LogIs(\"calls before application\")")
	g.pf("got := c%s", curCall(seqI(1, n)))
	g.pf("t.Eq(%q, got, %s)", m.Name+"(f)(a1)..(aN)", g.res(A(1, n)))
	g.pf("t.LogIs(\"calls\", Ent(\"f\", %s))", A(1, n))
	return true
}

func ruleUnTupled(g *G, m *Member) bool {
	n := m.N
	if n < 2 || m.TParams != n+1 {
		return false
	}
	g.use("fp", "as")
	g.vals(1, n)
	g.pf("f := func(tp %s) PR { return t.Call(\"f\", %s) }", g.tupT("Tuple", 1, n), list(1, n, func(i int) string { return fmt.Sprintf("tp.I%d", i) }))
	g.pf("got := as.%s(f)(%s)", m.Name, A(1, n))
	g.pf("t.Eq(%q, got, %s)", m.Name+"(f)(a1..)", g.res(A(1, n)))
	g.pf("t.LogIs(\"calls\", Ent(\"f\", %s))", A(1, n))
	return true
}

func ruleTupled(g *G, m *Member) bool {
	n := m.N
	if n != 2 || m.TParams != 3 {
		return false
	}
	g.use("fp", "as")
	g.vals(1, n)
	g.fn("f", 1, n)
	g.pf("got := as.%s(%s(f))(%s)", m.Name, fpFuncConv(g, n), g.tupLit("Tuple", 1, n, av))
	g.pf("t.Eq(%q, got, %s)", m.Name+"(f)(tuple)", g.res(A(1, n)))
	g.pf("t.LogIs(\"calls\", Ent(\"f\", %s))", A(1, n))
	return true
}

func ruleAsFunc(g *G, m *Member) bool {
	n := m.N
	if n < 0 || m.TParams != n+1 {
		return false
	}
	g.use("fp", "as")
	if n == 0 {
		if g.intM {
			return false
		}
		g.pf("f := func() PR { return t.Call(\"f\") }")
		g.pf("var c fp.Func1[fp.Unit, PR] = as.Func0(f)")
		g.pf("t.Eq(\"Func0(f)(Unit)\", c(fp.Unit{}), Res(\"f\"))")
		g.pf("t.LogIs(\"calls\", Ent(\"f\"))")
		return true
	}
	g.vals(1, n)
	g.fn("f", 1, n)
	g.pf("var c %s = as.%s(f)", fpFuncConv(g, n), m.Name)
	g.pf("t.Eq(%q, c(%s), Res(\"f\", %s))", m.Name+"(f)(a1..)", A(1, n), A(1, n))
	g.pf("t.LogIs(\"calls\", Ent(\"f\", %s))", A(1, n))
	return true
}

func ruleSupplier(g *G, m *Member) bool {
	n := m.N
	if n < 1 || m.Params != n+1 {
		return false
	}
	g.use("as")
	g.vals(1, n)
	g.fn("f", 1, n)
	g.pf("s := as.%s(f, %s)", m.Name, A(1, n))
	g.pf("t.Eq(%q, s(), Res(\"f\", %s))", m.Name+"(f, a1..)()", A(1, n))
	g.pf("t.LogIs(\"calls\", Ent(\"f\", %s))", A(1, n))
	return true
}

// curried f over positions 1..n as a typed variable cf.
func (g *G) curriedF(n int, r, expr string) {
	g.pf("var cf %s = %s", g.curT(seqI(1, n), r), g.curLit(seqI(1, n), r, expr))
}

func ruleRevert(g *G, m *Member) bool {
	n := m.N
	if n < 2 || m.TParams != n+1 {
		return false
	}
	g.use("fp", "curried")
	g.vals(1, n)
	g.curriedF(n, g.R(), g.call(Bs(1, n)))
	g.pf("got := curried.%s(cf)(%s)", m.Name, A(1, n))
	g.pf("t.Eq(%q, got, %s)", m.Name+"(cf)(a1..)", g.res(A(1, n)))
	g.pf("t.LogIs(\"calls\", Ent(\"f\", %s))", A(1, n))
	return true
}

// FlipK(f)(a2)..(aN)(a1) = f(a1)..(aN), N = K+1
func ruleFlip(g *G, m *Member) bool {
	n := m.N + 1
	if m.N < 2 || m.TParams != n+1 {
		return false
	}
	g.use("fp", "curried")
	g.vals(1, n)
	g.curriedF(n, g.R(), g.call(Bs(1, n)))
	order := append(seqI(2, n), 1)
	g.pf("var c %s = curried.%s(cf)", g.curT(order, "PR"), m.Name)
	g.pf("got := c%s", curCall(order))
	g.pf("t.Eq(%q, got, %s)", m.Name+"(cf)(a2)..(aN)(a1)", g.res(A(1, n)))
	g.pf("t.LogIs(\"calls\", Ent(\"f\", %s))", A(1, n))
	return true
}

// FlipApplyK(f, a2..aN)(a1) = f(a1)..(aN), N = K+1
func ruleFlipApply(g *G, m *Member) bool {
	n := m.N + 1
	if m.N < 2 || m.TParams != n+1 || m.Params != n {
		return false
	}
	g.use("fp", "curried")
	g.vals(1, n)
	g.curriedF(n, g.R(), g.call(Bs(1, n)))
	g.pf("got := curried.%s(cf, %s)(a1)", m.Name, A(2, n))
	g.pf("t.Eq(%q, got, %s)", m.Name+"(cf, a2..)(a1)", g.res(A(1, n)))
	g.pf("t.LogIs(\"calls\", Ent(\"f\", %s))", A(1, n))
	return true
}

// SlipLN(f)(aN)(a1)..(a(N-1)) = f(a1)..(aN)
func ruleSlipL(g *G, m *Member) bool {
	n := m.N
	if n < 3 || m.TParams != n+1 {
		return false
	}
	g.use("fp", "curried")
	g.vals(1, n)
	g.curriedF(n, g.R(), g.call(Bs(1, n)))
	order := append([]int{n}, seqI(1, n-1)...)
	g.pf("var c %s = curried.%s(cf)", g.curT(order, "PR"), m.Name)
	g.pf("got := c%s", curCall(order))
	g.pf("t.Eq(%q, got, %s)", m.Name+"(cf)(aN)(a1)..(aN-1)", g.res(A(1, n)))
	g.pf("t.LogIs(\"calls\", Ent(\"f\", %s))", A(1, n))
	return true
}

// curried.ComposeN(f, g)(a1)..(aN) = g(f(a1)..(aN))
func ruleCurriedCompose(g *G, m *Member) bool {
	n := m.N
	if n < 2 || m.TParams != n+2 {
		return false
	}
	g.use("fp", "curried")
	g.vals(1, n)
	ga := g.T(n + 1)
	g.curriedF(n, ga, fmt.Sprintf("func() %s { t.Rec(\"f\", %s); return %s(7) }()", ga, Bs(1, n), ga))
	g.pf("gf := func(b %s) PR { return t.Call(\"g\", b) }", ga)
	g.pf("var c %s = curried.%s(cf, gf)", g.curT(seqI(1, n), "PR"), m.Name)
	g.pf("got := c%s", curCall(seqI(1, n)))
	g.pf("t.Eq(%q, got, Res(\"g\", 7))", m.Name+"(cf, g)(a1)..(aN)")
	g.pf("t.LogIs(\"calls\", Ent(\"f\", %s), Ent(\"g\", 7))", A(1, n))
	return true
}

// ---- hlist

func ruleHOf(g *G, m *Member) bool {
	n := m.N
	if n < 1 || m.Params != n {
		return false
	}
	g.use("hlist")
	g.vals(1, n)
	g.pf("var want %s = %s", g.consT(seqI(1, n)), consV(seqI(1, n)))
	g.pf("t.Eq(%q, hlist.%s(%s), want)", m.Name+"(a1..)", m.Name, A(1, n))
	return true
}

func ruleHCase(g *G, m *Member) bool {
	n := m.N
	if n < 1 || m.TParams != n+2 {
		return false
	}
	g.use("hlist")
	g.vals(1, n+1)
	g.fn("f", 1, n)
	g.pf("var hl %s = %s", g.consT(seqI(1, n)), consV(seqI(1, n)))
	g.pf("t.Eq(%q, hlist.%s(hl, f), Res(\"f\", %s))", m.Name+"(hl, f)", m.Name, A(1, n))
	g.pf("t.LogIs(\"calls\", Ent(\"f\", %s))", A(1, n))
	// a longer list: the remaining tail is ignored
	g.pf("var hl2 %s = %s", g.consT(seqI(1, n+1)), consV(seqI(1, n+1)))
	g.pf("t.Eq(%q, hlist.%s(hl2, f), Res(\"f\", %s))", m.Name+"(longer hl, f)", m.Name, A(1, n))
	g.pf("t.LogIs(\"calls\", Ent(\"f\", %s))", A(1, n))
	return true
}

func ruleHLift(g *G, m *Member, rev bool) bool {
	n := m.N
	if n < 1 || m.TParams != n+1 {
		return false
	}
	g.use("hlist")
	g.vals(1, n)
	g.fn("f", 1, n)
	idx := seqI(1, n)
	if rev {
		idx = seqI(n, 1)
	}
	g.pf("var hl %s = %s", g.consT(idx), consV(idx))
	g.pf("t.Eq(%q, hlist.%s(f)(hl), Res(\"f\", %s))", m.Name+"(f)(hl)", m.Name, A(1, n))
	g.pf("t.LogIs(\"calls\", Ent(\"f\", %s))", A(1, n))
	return true
}

func ruleHReverse(g *G, m *Member) bool {
	n := m.N
	if n < 1 || m.TParams != n {
		return false
	}
	g.use("hlist")
	g.vals(1, n)
	g.pf("var hl %s = %s", g.consT(seqI(1, n)), consV(seqI(1, n)))
	g.pf("var want %s = %s", g.consT(seqI(n, 1)), consV(seqI(n, 1)))
	g.pf("t.Eq(%q, hlist.%s(hl), want)", m.Name+"(hl)", m.Name)
	return true
}

// ---- fn1, unit

func ruleMerge(g *G, m *Member) bool {
	n := m.N
	if n < 2 || m.TParams != n+1 || m.Params != n {
		return false
	}
	g.use("fp", "fn1")
	g.rev = n
	g.pf("a0 := %s(7)", g.T(22))
	var fs, wl []string
	for i := 1; i <= n; i++ {
		g.pf("f%d := func(b %s) %s { t.Rec(\"f%d\", b); return %s(%d + int(b)) }", i, g.T(22), g.T(i), i, g.T(i), 100*i)
		fs = append(fs, fmt.Sprintf("f%d", i))
		wl = append(wl, fmt.Sprintf("Ent(\"f%d\", 7)", i))
	}
	g.pf("got := fn1.%s(%s)(a0)", m.Name, strings.Join(fs, ", "))
	g.pf("t.Eq(%q, got, %s)", m.Name+"(f1..)(a)", g.tupLit("Tuple", 1, n, func(i int) string { return strconv.Itoa(100*i + 7) }))
	g.pf("t.LogSet(\"calls\", %s)", strings.Join(wl, ", "))
	return true
}

func ruleUnitFunc(g *G, m *Member) bool {
	n := m.N
	if n < 0 || m.TParams != n {
		return false
	}
	g.use("fp", "unit")
	if n == 0 {
		if g.intM {
			return false
		}
		g.pf("f := func() { t.Rec(\"f\") }")
		g.pf("t.Eq(\"Func0(f)(Unit)\", unit.Func0(f)(fp.Unit{}), fp.Unit{})")
		g.pf("t.LogIs(\"calls\", Ent(\"f\"))")
		return true
	}
	g.vals(1, n)
	g.pf("f := func(%s) { t.Rec(\"f\", %s) }", g.Bdecl(1, n), Bs(1, n))
	g.pf("t.Eq(%q, unit.%s(f)(%s), fp.Unit{})", m.Name+"(f)(a1..)", m.Name, A(1, n))
	g.pf("t.LogIs(\"calls\", Ent(\"f\", %s))", A(1, n))
	return true
}

// ---- type classes

func ruleTypeclass(g *G, m *Member, tc string) bool {
	n := m.N
	if n < 1 || m.Params != n || m.TParams != n {
		return false
	}
	g.use("fp", tc)
	g.rev = n
	at := map[string]string{"eq": "EqAt", "ord": "OrdAt", "hash": "HashAt", "monoid": "MonoidAt", "clone": "CloneAt"}[tc]
	chk := map[string]string{"eq": "CheckEq", "ord": "CheckOrd", "hash": "CheckHash", "monoid": "CheckMonoid", "clone": "CheckClone"}[tc]
	g.pf("ins := %s.%s(%s)", tc, m.Name, list(1, n, func(i int) string { return fmt.Sprintf("%s[%s](t, %d)", at, g.T(i), i) }))
	g.pf("%s[%s](t, %d, ins)", chk, g.tupT("Tuple", 1, n), n)
	return true
}

// ---- monads

type monad struct {
	pkg  string
	typ  string
	ctor string // constructor of a success
	val  string // extraction helper
	deps []string
	aps  []string
}

func (mo *monad) pure(v string) string { return mo.ctor + "(" + v + ")" }

var monads = []*monad{
	{pkg: "option", typ: "fp.Option", ctor: "fp.Some", val: "OptVal", deps: []string{"fp"},
		aps: []string{"Ap", "ApOption", "ApOptionFunc", "ApFunc"}},
	{pkg: "try", typ: "fp.Try", ctor: "fp.Success", val: "TryVal", deps: []string{"fp"},
		aps: []string{"Ap", "ApOption", "ApOptionFunc", "ApFunc", "ApTry", "ApTryFunc"}},
	{pkg: "future", typ: "fp.Future", ctor: "future.Successful", val: "FutVal", deps: []string{"fp", "future"},
		aps: []string{"Ap", "ApOption", "ApOptionFunc", "ApFunc", "ApTry", "ApTryFunc", "ApFuture", "ApFutureFunc"}},
}

func ex(m *Member) string {
	if m != nil && m.Variadic {
		return ", SyncExec{}"
	}
	return ""
}

// ruleLift: LiftAN(f)(m1..mN), LiftMN, MapN(m1..mN, f), FlatMapN.
func ruleLift(g *G, m *Member, mo *monad, flat bool, shape string) bool {
	n := m.N
	if n < 2 || m.TParams != n+1 {
		return false
	}
	g.use(mo.deps...)
	g.use(m.Pkg)
	g.vals(1, n)
	if flat {
		g.pf("f := func(%s) %s[%s] { return %s }", g.Bdecl(1, n), mo.typ, g.R(), mo.pure(g.call(Bs(1, n))))
	} else {
		g.fn("f", 1, n)
	}
	ms := list(1, n, func(i int) string { return mo.pure(av(i)) })
	var call string
	if shape == "lift" {
		call = fmt.Sprintf("%s.%s(f%s)(%s)", m.Pkg, m.Name, ex(m), ms)
	} else {
		call = fmt.Sprintf("%s.%s(%s, f%s)", m.Pkg, m.Name, ms, ex(m))
	}
	g.pf("got := %s(t, %q, %s)", mo.val, m.Name, call)
	g.pf("t.Eq(%q, got, %s)", m.Name+" on successes", g.res(A(1, n)))
	g.pf("t.LogIs(\"calls\", Ent(\"f\", %s))", A(1, n))
	return true
}

func ruleZip(g *G, m *Member, mo *monad) bool {
	n := m.N
	if n < 2 || m.TParams != n || m.Params < n {
		return false
	}
	g.use(mo.deps...)
	g.use(m.Pkg)
	g.vals(1, n)
	g.pf("got := %s(t, %q, %s.%s(%s))", mo.val, m.Name, m.Pkg, m.Name, list(1, n, func(i int) string { return mo.pure(av(i)) }))
	g.pf("t.Eq(%q, got, %s)", m.Name+" on successes", g.tupLit("Tuple", 1, n, av))
	return true
}

// FlapN(M(cf))(a1)..(aN) = M(f(a1..aN))
func ruleFlap(g *G, m *Member, mo *monad) bool {
	n := m.N
	if n < 2 || m.TParams != n+1 {
		return false
	}
	g.use(mo.deps...)
	g.use(m.Pkg)
	g.vals(1, n)
	g.curriedF(n, g.R(), g.call(Bs(1, n)))
	g.pf("var c %s = %s.%s(%s%s)", g.curT(seqI(1, n), mo.typ+"["+g.R()+"]"), m.Pkg, m.Name, mo.pure("cf"), ex(m))
	g.pf("got := %s(t, %q, c%s)", mo.val, m.Name, curCall(seqI(1, n)))
	g.pf("t.Eq(%q, got, %s)", m.Name+"(M(cf))(a1)..(aN)", g.res(A(1, n)))
	g.pf("t.LogIs(\"calls\", Ent(\"f\", %s))", A(1, n))
	return true
}

// MethodK(m1, f)(a2..aK) = M(f(a1..aK)); K is the arity of f (= type parameters - 1).
func ruleMethod(g *G, m *Member, mo *monad, flat bool) bool {
	k := m.TParams - 1
	if m.N < 1 || k < 2 {
		return false
	}
	g.use(mo.deps...)
	g.use(m.Pkg)
	g.vals(1, k)
	if flat {
		g.pf("f := func(%s) %s[%s] { return %s }", g.Bdecl(1, k), mo.typ, g.R(), mo.pure(g.call(Bs(1, k))))
	} else {
		g.fn("f", 1, k)
	}
	g.pf("var c func(%s) %s[%s] = %s.%s(%s, f%s)", g.Ts(2, k), mo.typ, g.R(), m.Pkg, m.Name, mo.pure("a1"), ex(m))
	g.pf("got := %s(t, %q, c(%s))", mo.val, m.Name, A(2, k))
	g.pf("t.Eq(%q, got, %s)", m.Name+"(M(a1), f)(a2..)", g.res(A(1, k)))
	g.pf("t.LogIs(\"calls\", Ent(\"f\", %s))", A(1, k))
	return true
}

// ruleMFunc: try.FuncN / PureN / UnitN / PtrN (and the Curried variants), future.FuncN / UnitN, option.PureN.
func ruleMFunc(g *G, m *Member, mo *monad, kind string, cur bool) bool {
	n := m.N
	if n < 0 || (cur && n < 2) {
		return false
	}
	if n == 0 && g.intM {
		return false
	}
	g.use(mo.deps...)
	g.use(m.Pkg)
	g.vals(1, n)
	if g.nilM && kind == "ptr" {
		return false // PtrN documents nil -> failure; its defining equation is not a nil-preserving one
	}
	callF := g.call(Bs(1, n))
	rt := g.R()
	switch kind {
	case "pure":
		g.pf("f := func(%s) %s { return %s }", g.Bdecl(1, n), rt, callF)
	case "func":
		g.pf("f := func(%s) (%s, error) { return %s, nil }", g.Bdecl(1, n), rt, callF)
	case "unit":
		g.pf("f := func(%s) error { %s; return nil }", g.Bdecl(1, n), callF)
		rt = "fp.Unit"
	case "ptr":
		g.pf("f := func(%s) (*PR, error) { r := %s; return &r, nil }", g.Bdecl(1, n), callF)
	}
	targs := ""
	if cur && kind == "unit" && m.TParams == n+1 {
		// the library declares an unused result type parameter here; it cannot be inferred
		targs = fmt.Sprintf("[%s, %s]", g.Ts(1, n), g.R())
	}
	var call string
	switch {
	case n == 0:
		call = fmt.Sprintf("%s.%s(f%s)(fp.Unit{})", m.Pkg, m.Name, ex(m))
	case cur:
		g.pf("var c %s = %s.%s%s(f%s)", g.curT(seqI(1, n), mo.typ+"["+rt+"]"), m.Pkg, m.Name, targs, ex(m))
		call = "c" + curCall(seqI(1, n))
	default:
		call = fmt.Sprintf("%s.%s(f%s)(%s)", m.Pkg, m.Name, ex(m), A(1, n))
	}
	g.pf("got := %s(t, %q, %s)", mo.val, m.Name, call)
	if kind == "unit" {
		g.pf("t.Eq(%q, got, fp.Unit{})", m.Name+"(f)(a1..)")
	} else {
		g.pf("t.Eq(%q, got, %s)", m.Name+"(f)(a1..)", g.res(A(1, n)))
	}
	g.pf("t.LogIs(\"calls\", Ent(\"f\"%s))", commaPrefix(A(1, n)))
	return true
}

// ---- ApplicativeN / ChainN builders

func (g *G) builderMethod(mo *monad, builder string, level int, v string) *Member {
	typ := "ApplicativeFunctor"
	if builder == "Chain" {
		typ = "MonadChain"
	}
	return g.have[fmt.Sprintf("%s.%s%d.%s", mo.pkg, typ, level, v)]
}

// chain emits one builder chain of M steps and its checks. steps[j-1] is the method used at step j.
func (g *G) chain(mo *monad, builder string, M int, steps []string, what string) bool {
	ctor := g.have[fmt.Sprintf("%s.%s%d", mo.pkg, builder, M)]
	if ctor == nil {
		return false
	}
	var sb strings.Builder
	fmt.Fprintf(&sb, "%s.%s%d(%s(f))", mo.pkg, builder, M, fpFuncConv(g, M))
	var set []string
	for j := 1; j <= M; j++ {
		v := steps[j-1]
		mm := g.builderMethod(mo, builder, M-j+1, v)
		if mm == nil {
			return false
		}
		e := ex(mm)
		tj := g.T(j)
		ht := "hlist.Nil"
		hv := "hlist.Empty()"
		if j > 1 {
			ht = g.T(j - 1)
			hv = av(j - 1)
		}
		hT, hV := "hlist.Nil", "hlist.Empty()"
		if j > 1 {
			hT = g.consT(seqI(j-1, 1))
			hV = consV(seqI(j-1, 1))
		}
		switch v {
		case "Ap":
			fmt.Fprintf(&sb, ".Ap(a%d)", j)
		case "ApOption":
			fmt.Fprintf(&sb, ".ApOption(fp.Some(a%d))", j)
		case "ApTry":
			fmt.Fprintf(&sb, ".ApTry(fp.Success(a%d))", j)
		case "ApFuture":
			fmt.Fprintf(&sb, ".ApFuture(future.Successful(a%d))", j)
		case "ApFunc":
			fmt.Fprintf(&sb, ".ApFunc(func() %s { t.Rec(\"arg%d\"); return a%d }%s)", tj, j, j, e)
			set = append(set, fmt.Sprintf("Ent(\"arg%d\")", j))
		case "ApOptionFunc":
			fmt.Fprintf(&sb, ".ApOptionFunc(func() fp.Option[%s] { t.Rec(\"arg%d\"); return fp.Some(a%d) }%s)", tj, j, j, e)
			set = append(set, fmt.Sprintf("Ent(\"arg%d\")", j))
		case "ApTryFunc":
			fmt.Fprintf(&sb, ".ApTryFunc(func() fp.Try[%s] { t.Rec(\"arg%d\"); return fp.Success(a%d) }%s)", tj, j, j, e)
			set = append(set, fmt.Sprintf("Ent(\"arg%d\")", j))
		case "ApFutureFunc":
			fmt.Fprintf(&sb, ".ApFutureFunc(func() fp.Future[%s] { t.Rec(\"arg%d\"); return future.Successful(a%d) }%s)", tj, j, j, e)
			set = append(set, fmt.Sprintf("Ent(\"arg%d\")", j))
		case "Map":
			fmt.Fprintf(&sb, ".Map(func(h %s) %s { t.Rec(\"map%d\", h); return a%d }%s)", ht, tj, j, j, e)
			set = append(set, fmt.Sprintf("Ent(\"map%d\", %s)", j, hv))
		case "FlatMap":
			fmt.Fprintf(&sb, ".FlatMap(func(h %s) %s[%s] { t.Rec(\"map%d\", h); return %s }%s)", ht, mo.typ, tj, j, mo.pure(av(j)), e)
			set = append(set, fmt.Sprintf("Ent(\"map%d\", %s)", j, hv))
		case "HListMap":
			fmt.Fprintf(&sb, ".HListMap(func(h %s) %s { t.Rec(\"map%d\", h); return a%d }%s)", hT, tj, j, j, e)
			set = append(set, fmt.Sprintf("Ent(\"map%d\", %s)", j, hV))
		case "HListFlatMap":
			fmt.Fprintf(&sb, ".HListFlatMap(func(h %s) %s[%s] { t.Rec(\"map%d\", h); return %s }%s)", hT, mo.typ, tj, j, mo.pure(av(j)), e)
			set = append(set, fmt.Sprintf("Ent(\"map%d\", %s)", j, hV))
		default:
			return false
		}
	}
	g.pf("{")
	g.pf("got := %s(t, %q, %s)", mo.val, what, sb.String())
	g.pf("t.Eq(%q, got, %s)", what, g.res(A(1, M)))
	g.pf("t.LogSetThen(%q, []string{%s}, Ent(\"f\", %s))", what+" callbacks", strings.Join(set, ", "), A(1, M))
	g.pf("}")
	return true
}

func uniform(M int, first []string, rest string) []string {
	s := append([]string{}, first...)
	for len(s) < M {
		s = append(s, rest)
	}
	return s
}

func ruleBuilder(g *G, m *Member, mo *monad, builder, v string) bool {
	// prefix-indexed types here: the accumulated hlist of a builder is a prefix of the
	// arguments, so its type is shared by the chains of all arities
	g.rev = -1
	g.typeOnly = !g.intM && !g.nilM
	if g.nilM && (mo.pkg == "future" || v == "HListMap" || v == "HListFlatMap") {
		// future: a third set of builder instantiations is not worth its compile time; HList callbacks: the
		// accumulated hlist has unexported fields, its nilable components cannot be described
		return false
	}
	g.use(mo.deps...)
	g.use(mo.pkg, "fp", "hlist")
	if v == "" {
		// the constructor: an all-Ap chain, and for Chain also an all-HListMap chain (every
		// step sees all previous arguments, most recent first)
		K := m.N
		if K < 1 || m.TParams != K+1 {
			return false
		}
		g.vals(1, K)
		g.fn("f", 1, K)
		if !g.chain(mo, builder, K, uniform(K, nil, "Ap"), m.Name+"(f).Ap(a1)..Ap(aN)") {
			return false
		}
		if builder == "Chain" {
			if !g.nilM {
				g.chain(mo, builder, K, uniform(K, nil, "HListMap"), m.Name+"(f).HListMap(..)..")
			}
			g.chain(mo, builder, K, uniform(K, nil, "Map"), m.Name+"(f).Map(..)..")
		}
		return true
	}
	K := m.RecvN
	if K < 1 {
		return false
	}
	hi := K
	if g.have[fmt.Sprintf("%s.%s%d", mo.pkg, builder, K+1)] != nil {
		hi = K + 1
	}
	g.vals(1, hi)
	ok := false
	// the method under test on the initial builder of its arity
	{
		g.pf("{")
		g.fn("f", 1, K)
		if g.chain(mo, builder, K, uniform(K, []string{v}, "Ap"), fmt.Sprintf("%s%d(f).%s(..).Ap..", builder, K, v)) {
			ok = true
		}
		g.pf("}")
	}
	// and on a builder that has already consumed one argument
	if hi == K+1 {
		g.pf("{")
		g.fn("f", 1, K+1)
		if g.chain(mo, builder, K+1, uniform(K+1, []string{"Ap", v}, "Ap"), fmt.Sprintf("%s%d(f).Ap(a1).%s(..).Ap..", builder, K+1, v)) {
			ok = true
		}
		g.pf("}")
	}
	return ok
}

// ---------------------------------------------------------------- main

var importPaths = map[string]string{
	"fp": "github.com/csgura/fp", "as": "github.com/csgura/fp/as", "curried": "github.com/csgura/fp/curried",
	"hlist": "github.com/csgura/fp/hlist", "product": "github.com/csgura/fp/product", "fn1": "github.com/csgura/fp/fn1",
	"unit": "github.com/csgura/fp/unit", "option": "github.com/csgura/fp/option", "try": "github.com/csgura/fp/try",
	"future": "github.com/csgura/fp/future", "eq": "github.com/csgura/fp/eq", "ord": "github.com/csgura/fp/ord",
	"hash": "github.com/csgura/fp/hash", "monoid": "github.com/csgura/fp/monoid", "clone": "github.com/csgura/fp/clone",
}

func ident(s string) string {
	return strings.NewReplacer(".", "_").Replace(s)
}

func readStubs(path string) map[string]string {
	out := map[string]string{}
	if path == "" {
		return out
	}
	f, err := os.Open(path)
	if err != nil {
		return out
	}
	defer f.Close()
	sc := bufio.NewScanner(f)
	for sc.Scan() {
		p := strings.SplitN(sc.Text(), "\t", 2)
		if len(p) == 2 {
			if _, ok := out[p[0]]; !ok {
				out[p[0]] = p[1]
			}
		}
	}
	return out
}

var markRe = regexp.MustCompile(`^// MEMBER (\S+)`)
var errRe = regexp.MustCompile(`zz/(\w+)/zz_generated\.go:(\d+):\d+: (.*)$`)

// fix maps build errors to members and appends them to the stubs file.
func fix(logPath, outDir, stubsPath string) int {
	owners := map[string][]string{}
	ownerOf := func(grp string, line int) string {
		o, ok := owners[grp]
		if !ok {
			src, err := os.ReadFile(filepath.Join(outDir, "zz", grp, "zz_generated.go"))
			if err != nil {
				owners[grp] = nil
				return ""
			}
			lines := strings.Split(string(src), "\n")
			o = make([]string, len(lines)+2)
			cur := ""
			for i, l := range lines {
				if m := markRe.FindStringSubmatch(l); m != nil {
					cur = m[1]
				}
				if strings.HasPrefix(l, "// END MEMBERS") {
					cur = ""
				}
				o[i+1] = cur
			}
			owners[grp] = o
		}
		if line < len(o) {
			return o[line]
		}
		return ""
	}
	lb, err := os.ReadFile(logPath)
	if err != nil {
		fmt.Fprintln(os.Stderr, err)
		return 2
	}
	old := readStubs(stubsPath)
	found := map[string]string{}
	other := 0
	for _, l := range strings.Split(string(lb), "\n") {
		m := errRe.FindStringSubmatch(l)
		if m == nil {
			if strings.Contains(l, ".go:") {
				other++
			}
			continue
		}
		n, _ := strconv.Atoi(m[2])
		if o := ownerOf(m[1], n); o != "" {
			if _, ok := found[o]; !ok {
				found[o] = m[3]
			}
		} else {
			other++
		}
	}
	added := 0
	f, err := os.OpenFile(stubsPath, os.O_CREATE|os.O_APPEND|os.O_WRONLY, 0o644)
	if err != nil {
		fmt.Fprintln(os.Stderr, err)
		return 2
	}
	defer f.Close()
	var names []string
	for k := range found {
		names = append(names, k)
	}
	sort.Strings(names)
	for _, k := range names {
		if _, ok := old[k]; ok {
			continue
		}
		fmt.Fprintf(f, "%s\t%s\n", k, found[k])
		added++
	}
	fmt.Fprintf(os.Stderr, "c14 gen -fix: %d member(s) newly stubbed, %d error line(s) outside member drivers\n", added, other)
	if added == 0 {
		return 1 // nothing more can be isolated: a real build failure of the harness
	}
	return 0
}

type entry struct {
	fam, name, d, i, nl string
	n, arity        int
}

type group struct {
	name    string
	body    bytes.Buffer
	imports map[string]bool
	entries []entry
}

func writeGo(path string, src []byte) {
	formatted, err := format.Source(src)
	if err != nil {
		os.WriteFile(path+".broken", src, 0o644)
		fmt.Fprintf(os.Stderr, "c14 gen: generated source %s does not parse: %v\n", path, err)
		os.Exit(2)
	}
	if err := os.MkdirAll(filepath.Dir(path), 0o755); err != nil {
		fmt.Fprintln(os.Stderr, err)
		os.Exit(2)
	}
	tmp := path + ".tmp"
	if err := os.WriteFile(tmp, formatted, 0o644); err != nil {
		fmt.Fprintln(os.Stderr, err)
		os.Exit(2)
	}
	if err := os.Rename(tmp, path); err != nil {
		fmt.Fprintln(os.Stderr, err)
		os.Exit(2)
	}
}

func main() {
	repo := flag.String("repo", envOr("VERIF_REPO", "/repo"), "tree under test")
	outDir := flag.String("outdir", "harness/c14", "harness directory (zz_generated.go and zz/<group>/zz_generated.go are written below it)")
	stubsPath := flag.String("stubs", "", "file of members to stub (member<TAB>compile error)")
	fixLog := flag.String("fix", "", "build log to map to members (appends to -stubs)")
	flag.Parse()
	if *fixLog != "" {
		os.Exit(fix(*fixLog, *outDir, *stubsPath))
	}
	ms, err := scan(*repo)
	if err != nil {
		fmt.Fprintln(os.Stderr, "c14 gen:", err)
		os.Exit(2)
	}
	have := map[string]*Member{}
	for _, m := range ms {
		have[m.Full()] = m
	}
	stubs := readStubs(*stubsPath)

	groups := map[string]*group{}
	var gorder []string
	grp := func(name string) *group {
		g, ok := groups[name]
		if !ok {
			g = &group{name: name, imports: map[string]bool{}}
			groups[name] = g
			gorder = append(gorder, name)
		}
		return g
	}
	uncov := map[string][]int{}     // family -> arities
	uncovWhy := map[string]string{} // family -> reason
	var stubbed []string
	total := 0
	typeOnly := map[string]bool{}
	for _, m := range ms {
		r := rules[m.Family()]
		if r == nil {
			uncov[m.Family()] = append(uncov[m.Family()], m.Index())
			uncovWhy[m.Family()] = "no driver rule (family not named in the property statement)"
			continue
		}
		gr := grp(m.Pkg)
		e := entry{fam: m.Family(), name: m.Full(), n: m.Index()}
		if msg, ok := stubs[m.Full()]; ok {
			fn := "d_" + ident(m.Full()) + "_D"
			fmt.Fprintf(&gr.body, "// MEMBER %s (stub)\nfunc %s(t *T) {\n\tt.Fail(\"the member no longer type-checks against its defining equation: %%s\", %q)\n}\n\n", m.Full(), fn, msg)
			e.d, e.i, e.arity = fn, "nil", 2
			gr.entries = append(gr.entries, e)
			stubbed = append(stubbed, m.Full())
			total++
			continue
		}
		any := false
		for _, md := range []string{"D", "I", "N"} {
			if md == "N" && !nilOK[m.Family()] {
				continue
			}
			intM := md == "I"
			g := &G{intM: intM, nilM: md == "N", have: have, imp: map[string]bool{}}
			if g.nilM {
				g.rev = -1
			}
			if !r(g, m) {
				continue
			}
			for ; g.closers > 0; g.closers-- {
				g.pf("}")
			}
			any = true
			suffix := "_" + md
			fn := "d_" + ident(m.Full()) + suffix
			if g.typeOnly {
				tg := grp(m.Pkg + "_dtypes")
				fmt.Fprintf(&tg.body, "// MEMBER %s\nfunc %s(t *T) {\n%s}\n\n", m.Full(), fn, g.buf.String())
				for k := range g.imp {
					tg.imports[k] = true
				}
				typeOnly[m.Family()] = true
				continue
			}
			fmt.Fprintf(&gr.body, "// MEMBER %s\nfunc %s(t *T) {\n%s}\n\n", m.Full(), fn, g.buf.String())
			for k := range g.imp {
				gr.imports[k] = true
			}
			switch md {
			case "I":
				e.i = fn
			case "N":
				e.nl = fn
			default:
				e.d = fn
			}
		}
		if !any {
			uncov[m.Family()] = append(uncov[m.Family()], m.Index())
			uncovWhy[m.Family()] = "the family's rule does not apply to this member's shape"
			continue
		}
		if e.d == "" {
			e.d = "nil"
		}
		if e.i == "" {
			e.i = "nil"
		}
		e.arity = m.Index()
		if m.N < 0 && m.RecvN < 0 {
			e.n, e.arity = 1, 2 // base members Flap / FlapMap / FlatFlapMap / With
		}
		if m.TParams-1 > e.arity && strings.Contains(m.Name, "Method") {
			e.arity = m.TParams - 1
		}
		if m.Pkg == "curried" && (m.Base == "Flip" || m.Base == "FlipApply") {
			e.arity = m.N + 1
		}
		gr.entries = append(gr.entries, e)
		total++
	}

	// the generated tree is rebuilt from scratch: groups of an earlier tree must not linger
	os.RemoveAll(filepath.Join(*outDir, "zz"))
	sort.Strings(gorder)
	for _, name := range gorder {
		gr := groups[name]
		var src bytes.Buffer
		fmt.Fprintf(&src, "// Code generated by harness/c14/gen from the tree under test; DO NOT EDIT.\n\npackage zz%s\n\nimport (\n\t. \"verif/harness/c14/sup\"\n", name)
		var ips []string
		for k := range gr.imports {
			p, ok := importPaths[k]
			if !ok {
				fmt.Fprintln(os.Stderr, "c14 gen: no import path for", k)
				os.Exit(2)
			}
			ips = append(ips, fmt.Sprintf("\t%q\n", p))
		}
		sort.Strings(ips)
		for _, p := range ips {
			src.WriteString(p)
		}
		src.WriteString(")\n\n")
		src.Write(gr.body.Bytes())
		src.WriteString("// END MEMBERS\n\n")
		if !strings.HasSuffix(name, "_dtypes") {
			src.WriteString("var Members = []Member{\n")
			for _, e := range gr.entries {
				nl := e.nl
				if nl == "" {
					nl = "nil"
				}
				fmt.Fprintf(&src, "\t{Family: %q, Name: %q, N: %d, Arity: %d, D: %s, I: %s, Nil: %s},\n", e.fam, e.name, e.n, e.arity, e.d, e.i, nl)
			}
			src.WriteString("}\n")
		}
		writeGo(filepath.Join(*outDir, "zz", name, "zz_generated.go"), src.Bytes())
	}

	var src bytes.Buffer
	src.WriteString("// Code generated by harness/c14/gen from the tree under test; DO NOT EDIT.\n\npackage main\n\nimport (\n\t\"verif/harness/c14/sup\"\n")
	for _, name := range gorder {
		if strings.HasSuffix(name, "_dtypes") {
			continue
		}
		fmt.Fprintf(&src, "\tzz%s \"verif/harness/c14/zz/%s\"\n", name, name)
	}
	src.WriteString(")\n\nvar members = func() []sup.Member {\n\tvar ms []sup.Member\n")
	for _, name := range gorder {
		if strings.HasSuffix(name, "_dtypes") {
			continue
		}
		fmt.Fprintf(&src, "\tms = append(ms, zz%s.Members...)\n", name)
	}
	src.WriteString("\treturn ms\n}()\n\n")
	var fams []string
	for f := range uncov {
		fams = append(fams, f)
	}
	sort.Strings(fams)
	src.WriteString("var uncovered = []string{\n")
	for _, f := range fams {
		as := uncov[f]
		sort.Ints(as)
		var ss []string
		for i, a := range as {
			if (i > 0 && as[i-1] == a) || a < 0 {
				continue
			}
			ss = append(ss, strconv.Itoa(a))
		}
		fmt.Fprintf(&src, "\t%q,\n", fmt.Sprintf("%s [%s]: %s", f, strings.Join(ss, ","), uncovWhy[f]))
	}
	src.WriteString("}\n\n")
	var tos []string
	for f := range typeOnly {
		tos = append(tos, f)
	}
	sort.Strings(tos)
	src.WriteString("var typecheckedOnlyD = []string{\n")
	for _, f := range tos {
		fmt.Fprintf(&src, "\t%q,\n", f)
	}
	src.WriteString("}\n\n")
	sort.Strings(stubbed)
	src.WriteString("var stubbed = []string{\n")
	for _, s := range stubbed {
		fmt.Fprintf(&src, "\t%q,\n", s)
	}
	src.WriteString("}\n")
	writeGo(filepath.Join(*outDir, "zz_generated.go"), src.Bytes())
	fmt.Fprintf(os.Stderr, "c14 gen: %d members with drivers (%d stubbed) in %d packages, %d families uncovered, from %s\n", total, len(stubbed), len(gorder), len(fams), *repo)
}

func envOr(k, d string) string {
	if v := os.Getenv(k); v != "" {
		return v
	}
	return d
}
