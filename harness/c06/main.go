// C06 — Future combinators are schedule independent and always complete.
// Expression trees over source promises are built with the real future combinators while
// completer threads complete the sources; every interleaving (atomic load/CAS steps of
// internal/atomic, every spawn of a callback task) is explored. At every quiescent point the
// derived future must be completed iff a three-valued reference evaluation (Pending | Try) of the
// same tree is not Pending, with the same value; observers run exactly once.
package main

import (
	"errors"
	"fmt"
	"strings"
	"time"

	"github.com/csgura/fp"
	"github.com/csgura/fp/as"
	"github.com/csgura/fp/future"
	"github.com/csgura/fp/hlist"
	"github.com/csgura/fp/iterator"
	"github.com/csgura/fp/option"
	"github.com/csgura/fp/try"
	"verif/mc"
)

type F = fp.Future[int]

var srcErr = []error{errors.New("src0 failed"), errors.New("src1 failed"), errors.New("src2 failed"), errors.New("src3 failed"), errors.New("src4 failed"), errors.New("src5 failed")}
var errK = errors.New("callback failed")

// tri is the three-valued result of the reference evaluation.
type tri struct {
	pending bool
	ok      bool
	v       int
	err     error
}

func pend() tri        { return tri{pending: true} }
func succ(v int) tri   { return tri{ok: true, v: v} }
func fail(e error) tri { return tri{err: e} }
func (t tri) String() string {
	switch {
	case t.pending:
		return "Pending"
	case t.ok:
		return fmt.Sprintf("Success(%d)", t.v)
	}
	return fmt.Sprintf("Failure(%v)", t.err)
}

func fromTry(t fp.Try[int]) tri {
	if t.IsSuccess() {
		return succ(t.Get())
	}
	return fail(t.Failed().Get())
}

func same(a, b tri) bool {
	if a.pending || b.pending {
		return a.pending == b.pending
	}
	if a.ok != b.ok {
		return false
	}
	if a.ok {
		return a.v == b.v
	}
	return a.err == b.err
}

// ---- execution context ----

type sync struct{}

func (sync) ExecuteUnsafe(r fp.Runnable) { r.Run() }

type spawner struct{ x *mc.X }

func (e spawner) ExecuteUnsafe(r fp.Runnable) { e.x.Go("usertask", r.Run) }

type ctx struct {
	x     *mc.X
	exec  []fp.Executor
	src   []fp.Promise[int]
	state []tri // reference view of every source (Pending until completed)
	log   map[string]int
	rlog  map[string]int
}

func (c *ctx) called(name string) { c.log[name]++ }

// node of the expression tree
type node struct {
	k    *kind
	kids []*node
	src  int // leaf: source index
}

type kind struct {
	name  string
	arity int
	core  bool
	// build constructs the library future from the already built kids.
	build func(c *ctx, kids []F) F
	// eval is the reference: kids are evaluated on demand, left to right.
	eval func(c *ctx, kids []func() tri) tri
}

func (n *node) String() string {
	if n.k == nil {
		return fmt.Sprintf("s%d", n.src)
	}
	var ks []string
	for _, k := range n.kids {
		ks = append(ks, k.String())
	}
	return n.k.name + "(" + strings.Join(ks, ", ") + ")"
}

func (n *node) build(c *ctx) F {
	if n.k == nil {
		return c.src[n.src].Future()
	}
	kids := make([]F, len(n.kids))
	for i, k := range n.kids {
		kids[i] = k.build(c)
	}
	return n.k.build(c, kids)
}

func (n *node) eval(c *ctx) tri {
	if n.k == nil {
		return c.state[n.src]
	}
	kids := make([]func() tri, len(n.kids))
	for i, k := range n.kids {
		k := k
		kids[i] = func() tri { return k.eval(c) }
	}
	return n.k.eval(c, kids)
}

// needed fills c.rlog with the suppliers/handlers that the evaluation needs. Futures are eager:
// every sub-expression is a future of its own and evaluates whether or not its parent ends up
// using its value, so each node is evaluated on its own (with its operands' logs muted).
func (n *node) needed(c *ctx, total map[string]int) {
	if n.k == nil {
		return
	}
	for _, k := range n.kids {
		k.needed(c, total)
	}
	c.rlog = map[string]int{}
	kids := make([]func() tri, len(n.kids))
	for i, k := range n.kids {
		k := k
		kids[i] = func() tri {
			saved := c.rlog
			c.rlog = map[string]int{}
			t := k.eval(c)
			c.rlog = saved
			return t
		}
	}
	n.k.eval(c, kids)
	for name, cnt := range c.rlog {
		total[name] += cnt
	}
}

func (n *node) maxSrc() int {
	if n.k == nil {
		return n.src
	}
	m := -1
	for _, k := range n.kids {
		if s := k.maxSrc(); s > m {
			m = s
		}
	}
	return m
}

// ---- reference helpers ----

// inOrder evaluates kids left to right; the first one that is not a success decides
// (Pending or that failure); otherwise f combines the values.
func inOrder(kids []func() tri, f func(vs []int) tri) tri {
	vs := make([]int, 0, len(kids))
	for _, k := range kids {
		t := k()
		if t.pending || !t.ok {
			return t
		}
		vs = append(vs, t.v)
	}
	return f(vs)
}

func onSuccess(t tri, f func(v int) tri) tri {
	if t.pending || !t.ok {
		return t
	}
	return f(t.v)
}

func onFailure(t tri, f func(e error) tri) tri {
	if t.pending || t.ok {
		return t
	}
	return f(t.err)
}

func inc(v int) int         { return v + 1 }
func comb(a, b int) int     { return 10*a + b }
func comb3(a, b, c int) int { return 100*a + 10*b + c }

// the extra source referenced from inside callbacks ("s_cb"): always the last source
func (c *ctx) cb() int { return len(c.src) - 1 }

func kinds() []*kind {
	var ks []*kind
	add := func(name string, arity int, core bool, b func(c *ctx, k []F) F, e func(c *ctx, k []func() tri) tri) {
		ks = append(ks, &kind{name, arity, core, b, e})
	}
	mapRef := func(f func(int) int) func(c *ctx, k []func() tri) tri {
		return func(c *ctx, k []func() tri) tri { return onSuccess(k[0](), func(v int) tri { return succ(f(v)) }) }
	}
	// ---------- unary ----------
	add("Map", 1, true, func(c *ctx, k []F) F { return future.Map(k[0], inc, c.exec...) }, mapRef(inc))
	add("Future.Map", 1, false, func(c *ctx, k []F) F { return k[0].Map(inc, c.exec...) }, mapRef(inc))
	add("Lift", 1, false, func(c *ctx, k []F) F { return future.Lift(inc, c.exec...)(k[0]) }, mapRef(inc))
	add("Replace", 1, false, func(c *ctx, k []F) F { return future.Replace(k[0], 7) }, mapRef(func(int) int { return 7 }))
	add("FlatMap(pure)", 1, false, func(c *ctx, k []F) F {
		return future.FlatMap(k[0], func(v int) F { return future.Successful(v + 1) }, c.exec...)
	}, mapRef(inc))
	add("FlatMap(fail)", 1, true, func(c *ctx, k []F) F {
		return future.FlatMap(k[0], func(v int) F { return future.Failed[int](errK) }, c.exec...)
	}, func(c *ctx, k []func() tri) tri { return onSuccess(k[0](), func(int) tri { return fail(errK) }) })
	add("FlatMap(src)", 1, true, func(c *ctx, k []F) F {
		return future.FlatMap(k[0], func(v int) F { c.called("FlatMap.k"); return c.src[c.cb()].Future() }, c.exec...)
	}, func(c *ctx, k []func() tri) tri {
		return onSuccess(k[0](), func(int) tri { c.rlog["FlatMap.k"]++; return c.state[c.cb()] })
	})
	add("Future.FlatMap(src)", 1, false, func(c *ctx, k []F) F {
		return k[0].FlatMap(func(v int) F { return c.src[c.cb()].Future() }, c.exec...)
	}, func(c *ctx, k []func() tri) tri { return onSuccess(k[0](), func(int) tri { return c.state[c.cb()] }) })
	add("LiftM(src)", 1, false, func(c *ctx, k []F) F {
		return future.LiftM(func(v int) F { return future.Map(c.src[c.cb()].Future(), func(w int) int { return comb(v, w) }) }, c.exec...)(k[0])
	}, func(c *ctx, k []func() tri) tri {
		return onSuccess(k[0](), func(v int) tri { return onSuccess(c.state[c.cb()], func(w int) tri { return succ(comb(v, w)) }) })
	})
	add("Flatten(Map->src)", 1, true, func(c *ctx, k []F) F {
		return future.Flatten(future.Map(k[0], func(v int) F { return c.src[c.cb()].Future() }, c.exec...))
	}, func(c *ctx, k []func() tri) tri { return onSuccess(k[0](), func(int) tri { return c.state[c.cb()] }) })
	add("Compose(->e,pure)", 1, false, func(c *ctx, k []F) F {
		return future.Compose(func(int) F { return k[0] }, func(v int) F { return future.Successful(v + 1) }, c.exec...)(0)
	}, mapRef(inc))
	add("Compose2(->e,src)", 1, false, func(c *ctx, k []F) F {
		return future.Compose2(func(int) F { return k[0] }, func(v int) F { return c.src[c.cb()].Future() }, c.exec...)(0)
	}, func(c *ctx, k []func() tri) tri { return onSuccess(k[0](), func(int) tri { return c.state[c.cb()] }) })
	add("ComposeTry(ok,->e)", 1, false, func(c *ctx, k []F) F {
		return future.ComposeTry(func(v int) fp.Try[int] { return try.Success(v) }, func(int) F { return k[0] }, c.exec...)(0)
	}, func(c *ctx, k []func() tri) tri { return k[0]() })
	add("ComposeOption(none,->e)", 1, false, func(c *ctx, k []F) F {
		return future.ComposeOption(func(v int) fp.Option[int] { return option.None[int]() }, func(int) F { return k[0] }, c.exec...)(0)
	}, func(c *ctx, k []func() tri) tri { return fail(fp.ErrOptionEmpty) })
	add("Transform(recover)", 1, true, func(c *ctx, k []F) F {
		return future.Transform(k[0], func(t fp.Try[int]) fp.Try[int] {
			if t.IsSuccess() {
				return try.Success(t.Get() + 1)
			}
			return try.Success(-1)
		}, c.exec...)
	}, func(c *ctx, k []func() tri) tri {
		t := k[0]()
		if t.pending {
			return t
		}
		if t.ok {
			return succ(t.v + 1)
		}
		return succ(-1)
	})
	add("Transform(swap)", 1, false, func(c *ctx, k []F) F {
		return future.Transform(k[0], func(t fp.Try[int]) fp.Try[int] {
			if t.IsSuccess() {
				return try.Failure[int](errK)
			}
			return try.Success(5)
		}, c.exec...)
	}, func(c *ctx, k []func() tri) tri {
		t := k[0]()
		if t.pending {
			return t
		}
		if t.ok {
			return fail(errK)
		}
		return succ(5)
	})
	add("TransformWith(src on failure)", 1, true, func(c *ctx, k []F) F {
		return future.TransformWith(k[0], func(t fp.Try[int]) F {
			if t.IsSuccess() {
				return future.Successful(t.Get() + 1)
			}
			return c.src[c.cb()].Future()
		}, c.exec...)
	}, func(c *ctx, k []func() tri) tri {
		t := k[0]()
		if t.pending {
			return t
		}
		if t.ok {
			return succ(t.v + 1)
		}
		return c.state[c.cb()]
	})
	add("TransformWith(success->failed, failure->recovered)", 1, true, func(c *ctx, k []F) F {
		return future.TransformWith(k[0], func(t fp.Try[int]) F {
			c.called("TransformWith.fn")
			if t.IsSuccess() {
				return future.Failed[int](errK)
			}
			return future.Successful(-1)
		}, c.exec...)
	}, func(c *ctx, k []func() tri) tri {
		t := k[0]()
		if t.pending {
			return t
		}
		c.rlog["TransformWith.fn"]++
		if t.ok {
			return fail(errK)
		}
		return succ(-1)
	})
	add("Transform(success->failure, failure->success)", 1, false, func(c *ctx, k []F) F {
		return future.Transform(k[0], func(t fp.Try[int]) fp.Try[int] {
			c.called("Transform.fn")
			if t.IsSuccess() {
				return try.Failure[int](errK)
			}
			return try.Success(-1)
		}, c.exec...)
	}, func(c *ctx, k []func() tri) tri {
		t := k[0]()
		if t.pending {
			return t
		}
		c.rlog["Transform.fn"]++
		if t.ok {
			return fail(errK)
		}
		return succ(-1)
	})
	add("Recover", 1, true, func(c *ctx, k []F) F {
		return k[0].Recover(func(error) int { c.called("Recover.h"); return 100 }, c.exec...)
	}, func(c *ctx, k []func() tri) tri {
		return onFailure(k[0](), func(error) tri { c.rlog["Recover.h"]++; return succ(100) })
	})
	add("RecoverCase(src0 only)", 1, false, func(c *ctx, k []F) F {
		return k[0].RecoverCase(func(e error) bool { return e == srcErr[0] }, func(error) int { return 100 }, c.exec...)
	}, func(c *ctx, k []func() tri) tri {
		return onFailure(k[0](), func(e error) tri {
			if e == srcErr[0] {
				return succ(100)
			}
			return fail(e)
		})
	})
	add("RecoverWith(src)", 1, true, func(c *ctx, k []F) F {
		return k[0].RecoverWith(func(error) F { c.called("RecoverWith.h"); return c.src[c.cb()].Future() }, c.exec...)
	}, func(c *ctx, k []func() tri) tri {
		return onFailure(k[0](), func(error) tri { c.rlog["RecoverWith.h"]++; return c.state[c.cb()] })
	})
	add("RecoverCaseWith(src0 only -> src)", 1, false, func(c *ctx, k []F) F {
		return k[0].RecoverCaseWith(func(e error) bool { return e == srcErr[0] }, func(error) F { return c.src[c.cb()].Future() }, c.exec...)
	}, func(c *ctx, k []func() tri) tri {
		return onFailure(k[0](), func(e error) tri {
			if e == srcErr[0] {
				return c.state[c.cb()]
			}
			return fail(e)
		})
	})
	add("Or(src)", 1, true, func(c *ctx, k []F) F {
		return k[0].Or(func() F { c.called("Or.alt"); return c.src[c.cb()].Future() })
	}, func(c *ctx, k []func() tri) tri {
		return onFailure(k[0](), func(error) tri { c.rlog["Or.alt"]++; return c.state[c.cb()] })
	})
	add("Failed", 1, true, func(c *ctx, k []F) F {
		return future.Map(k[0].Failed(), func(e error) int {
			for i, se := range srcErr {
				if e == se {
					return 200 + i
				}
			}
			return 299
		}, c.exec...)
	}, func(c *ctx, k []func() tri) tri {
		t := k[0]()
		if t.pending {
			return t
		}
		if t.ok {
			return fail(fp.ErrFutureNotFailed)
		}
		for i, se := range srcErr {
			if t.err == se {
				return succ(200 + i)
			}
		}
		return succ(299)
	})
	add("Method1", 1, false, func(c *ctx, k []F) F { return future.Method1(k[0], comb, c.exec...)(5) },
		mapRef(func(v int) int { return comb(v, 5) }))
	add("Method2", 1, false, func(c *ctx, k []F) F { return future.Method2(k[0], comb3, c.exec...)(5, 6) },
		mapRef(func(v int) int { return comb3(v, 5, 6) }))
	add("FlatMethod1(src)", 1, false, func(c *ctx, k []F) F {
		return future.FlatMethod1(k[0], func(a, b int) F {
			return future.Map(c.src[c.cb()].Future(), func(w int) int { return comb3(a, b, w) })
		}, c.exec...)(5)
	}, func(c *ctx, k []func() tri) tri {
		return onSuccess(k[0](), func(v int) tri { return onSuccess(c.state[c.cb()], func(w int) tri { return succ(comb3(v, 5, w)) }) })
	})
	add("FlatMethod2(pure)", 1, false, func(c *ctx, k []F) F {
		return future.FlatMethod2(k[0], func(a, b, d int) F { return future.Successful(comb3(a, b, d)) })(5, 6)
	}, mapRef(func(v int) int { return comb3(v, 5, 6) }))
	add("FlapMap", 1, false, func(c *ctx, k []F) F { return future.FlapMap(comb, k[0], c.exec...)(5) },
		mapRef(func(v int) int { return comb(v, 5) }))
	add("FlatFlapMap(pure)", 1, false, func(c *ctx, k []F) F {
		return future.FlatFlapMap(func(a, b int) F { return future.Successful(comb(a, b)) }, k[0], c.exec...)(5)
	}, mapRef(func(v int) int { return comb(v, 5) }))
	add("With", 1, false, func(c *ctx, k []F) F { return future.With(comb, k[0], c.exec...)(5) },
		mapRef(func(v int) int { return comb(5, v) }))
	add("Flap", 1, false, func(c *ctx, k []F) F {
		return future.Flap(future.Map(k[0], func(v int) fp.Func1[int, int] { return func(a int) int { return comb(v, a) } }), c.exec...)(5)
	}, mapRef(func(v int) int { return comb(v, 5) }))
	add("Flap2", 1, false, func(c *ctx, k []F) F {
		return future.Flap2(future.Map(k[0], func(v int) fp.Func1[int, fp.Func1[int, int]] {
			return func(a int) fp.Func1[int, int] { return func(b int) int { return comb3(v, a, b) } }
		}), c.exec...)(5)(6)
	}, mapRef(func(v int) int { return comb3(v, 5, 6) }))
	add("MapSeqLift", 1, false, func(c *ctx, k []F) F {
		s := future.Map(k[0], func(v int) fp.Seq[int] { return fp.Seq[int]{v, v + 1} })
		return future.Map(future.MapSeqLift(s, inc, c.exec...), func(s fp.Seq[int]) int { return comb(s[0], s[1]) })
	}, mapRef(func(v int) int { return comb(v+1, v+2) }))
	add("FlatMapTraverseSeq(src per element)", 1, false, func(c *ctx, k []F) F {
		s := future.Map(k[0], func(v int) fp.Seq[int] { return fp.Seq[int]{v, v} })
		r := future.FlatMapTraverseSeq(s, func(v int) F { return future.Map(c.src[c.cb()].Future(), func(w int) int { return v + w }) }, c.exec...)
		return future.Map(r, func(s fp.Seq[int]) int { return comb(s[0], s[1]) })
	}, func(c *ctx, k []func() tri) tri {
		return onSuccess(k[0](), func(v int) tri {
			return onSuccess(c.state[c.cb()], func(w int) tri { return succ(comb(v+w, v+w)) })
		})
	})
	// ---------- binary ----------
	m2 := func(c *ctx, k []func() tri) tri {
		return inOrder(k, func(v []int) tri { return succ(comb(v[0], v[1])) })
	}
	add("Map2", 2, true, func(c *ctx, k []F) F { return future.Map2(k[0], k[1], comb, c.exec...) }, m2)
	add("Zip", 2, false, func(c *ctx, k []F) F {
		return future.Map(future.Zip(k[0], k[1]), func(t fp.Tuple2[int, int]) int { return comb(t.I1, t.I2) }, c.exec...)
	}, m2)
	add("LiftA2", 2, false, func(c *ctx, k []F) F { return future.LiftA2(comb, c.exec...)(k[0], k[1]) }, m2)
	add("LiftM2(pure)", 2, false, func(c *ctx, k []F) F {
		return future.LiftM2(func(a, b int) F { return future.Successful(comb(a, b)) }, c.exec...)(k[0], k[1])
	}, m2)
	add("Ap", 2, true, func(c *ctx, k []F) F {
		return future.Ap(future.Map(k[0], func(a int) fp.Func1[int, int] { return func(b int) int { return comb(a, b) } }), k[1], c.exec...)
	}, m2)
	add("ApFunc(supplier)", 2, true, func(c *ctx, k []F) F {
		return future.ApFunc(future.Map(k[0], func(a int) fp.Func1[int, int] { return func(b int) int { return comb(a, b) } }),
			func() F { c.called("ApFunc.supplier"); return k[1] }, c.exec...)
	}, func(c *ctx, k []func() tri) tri {
		return onSuccess(k[0](), func(a int) tri {
			c.rlog["ApFunc.supplier"]++
			return onSuccess(k[1](), func(b int) tri { return succ(comb(a, b)) })
		})
	})
	add("OrFuture", 2, true, func(c *ctx, k []F) F { return k[0].OrFuture(k[1]) },
		func(c *ctx, k []func() tri) tri { return onFailure(k[0](), func(error) tri { return k[1]() }) })
	add("Applicative2.ApFuture.ApFuture", 2, false, func(c *ctx, k []F) F {
		return future.Applicative2(comb).ApFuture(k[0]).ApFuture(k[1])
	}, m2)
	add("Chain2.ApFuture.ApFuture", 2, false, func(c *ctx, k []F) F {
		return future.Chain2(as.Func2(comb)).ApFuture(k[0]).ApFuture(k[1])
	}, m2)
	add("Chain2.ApFuture.ApFutureFunc", 2, false, func(c *ctx, k []F) F {
		return future.Chain2(as.Func2(comb)).ApFuture(k[0]).ApFutureFunc(func() F { c.called("Chain.supplier"); return k[1] }, c.exec...)
	}, func(c *ctx, k []func() tri) tri {
		return onSuccess(k[0](), func(a int) tri {
			c.rlog["Chain.supplier"]++
			return onSuccess(k[1](), func(b int) tri { return succ(comb(a, b)) })
		})
	})
	add("Chain2.ApFuture.FlatMap", 2, false, func(c *ctx, k []F) F {
		return future.Chain2(as.Func2(comb)).ApFuture(k[0]).FlatMap(func(a int) F { return k[1] }, c.exec...)
	}, m2)
	add("Applicative2.ApTry.ApFuture", 2, false, func(c *ctx, k []F) F {
		// first operand is a Try taken from kid 0 only when it is already complete; otherwise a fixed success
		return future.Applicative2(comb).ApTry(try.Success(4)).ApFuture(future.Map2(k[0], k[1], comb, c.exec...))
	}, func(c *ctx, k []func() tri) tri {
		return onSuccess(m2(c, k), func(v int) tri { return succ(comb(4, v)) })
	})
	// ---------- ternary ----------
	m3 := func(c *ctx, k []func() tri) tri {
		return inOrder(k, func(v []int) tri { return succ(comb3(v[0], v[1], v[2])) })
	}
	add("Zip3", 3, true, func(c *ctx, k []F) F {
		return future.Map(future.Zip3(k[0], k[1], k[2]), func(t fp.Tuple3[int, int, int]) int { return comb3(t.I1, t.I2, t.I3) }, c.exec...)
	}, m3)
	add("LiftA3", 3, false, func(c *ctx, k []F) F { return future.LiftA3(comb3, c.exec...)(k[0], k[1], k[2]) }, m3)
	add("LiftM3(pure)", 3, false, func(c *ctx, k []F) F {
		return future.LiftM3(func(a, b, d int) F { return future.Successful(comb3(a, b, d)) }, c.exec...)(k[0], k[1], k[2])
	}, m3)
	add("Sequence", 3, true, func(c *ctx, k []F) F {
		return future.Map(future.Sequence([]F{k[0], k[1], k[2]}, c.exec...), func(s []int) int { return comb3(s[0], s[1], s[2]) }, c.exec...)
	}, m3)
	add("SequenceIterator", 3, false, func(c *ctx, k []F) F {
		return future.Map(future.SequenceIterator(iterator.Of(k[0], k[1], k[2]), c.exec...), func(it fp.Iterator[int]) int {
			s := it.ToSeq()
			return comb3(s[0], s[1], s[2])
		}, c.exec...)
	}, m3)
	add("Applicative3.ApFuture x3", 3, false, func(c *ctx, k []F) F {
		return future.Applicative3(comb3).ApFuture(k[0]).ApFuture(k[1]).ApFuture(k[2])
	}, m3)
	add("Chain3.ApFuture.Map.ApFutureFunc", 3, false, func(c *ctx, k []F) F {
		_ = k[1]
		return future.Chain3(as.Func3(comb3)).ApFuture(k[0]).ApFuture(k[1]).ApFutureFunc(func() F { return k[2] }, c.exec...)
	}, m3)
	// the last link of a chain given as a continuation (MonadChain1.FlatMap / Map / HListFlatMap): with
	// two earlier operands failing, the first failure wins and the result does not wait for anything else
	add("Chain3.ApFuture.ApFuture.FlatMap", 3, false, func(c *ctx, k []F) F {
		return future.Chain3(as.Func3(comb3)).ApFuture(k[0]).ApFuture(k[1]).FlatMap(func(prev int) F { return k[2] }, c.exec...)
	}, m3)
	add("Chain(3).ApFuture.ApFuture.Map(last link)", 2, false, func(c *ctx, k []F) F {
		return future.Chain3(as.Func3(comb3)).ApFuture(k[0]).ApFuture(k[1]).Map(func(prev int) int { return prev + 1 }, c.exec...)
	}, func(c *ctx, k []func() tri) tri {
		return inOrder(k, func(v []int) tri { return succ(comb3(v[0], v[1], v[1]+1)) })
	})
	add("Chain3.ApFuture.ApFuture.HListFlatMap", 3, false, func(c *ctx, k []F) F {
		return future.Chain3(as.Func3(comb3)).ApFuture(k[0]).ApFuture(k[1]).HListFlatMap(func(h hlist.Cons[int, hlist.Cons[int, hlist.Nil]]) F { return k[2] }, c.exec...)
	}, m3)
	// traverse family: the element function returns kid i (already built); sequential fold
	trav := func(c *ctx, k []func() tri) tri {
		return inOrder(k, func(v []int) tri { c.rlog["trav.done"]++; return succ(comb3(v[0], v[1], v[2])) })
	}
	add("TraverseSeq", 3, true, func(c *ctx, k []F) F {
		r := future.TraverseSeq(fp.Seq[int]{0, 1, 2}, func(i int) F { return k[i] }, c.exec...)
		return future.Map(r, func(s fp.Seq[int]) int { return comb3(s[0], s[1], s[2]) }, c.exec...)
	}, trav)
	add("TraverseSlice", 3, false, func(c *ctx, k []F) F {
		r := future.TraverseSlice([]int{0, 1, 2}, func(i int) F { return k[i] }, c.exec...)
		return future.Map(r, func(s []int) int { return comb3(s[0], s[1], s[2]) }, c.exec...)
	}, trav)
	add("Traverse(iterator)", 3, false, func(c *ctx, k []F) F {
		r := future.Traverse(iterator.Of(0, 1, 2), func(i int) F { return k[i] }, c.exec...)
		return future.Map(r, func(it fp.Iterator[int]) int { s := it.ToSeq(); return comb3(s[0], s[1], s[2]) }, c.exec...)
	}, trav)
	add("TraverseSeqFunc", 3, false, func(c *ctx, k []F) F {
		r := future.TraverseSeqFunc(func(i int) F { return k[i] }, c.exec...)(fp.Seq[int]{0, 1, 2})
		return future.Map(r, func(s fp.Seq[int]) int { return comb3(s[0], s[1], s[2]) }, c.exec...)
	}, trav)
	// the value of a derived future is fixed by the arguments as they are when the call is made:
	// the caller overwrites (or goes on consuming) its input as soon as the call has returned, while
	// sources may still be pending
	add("TraverseSeq(input overwritten after the call)", 3, false, func(c *ctx, k []F) F {
		in := fp.Seq[int]{0, 1, 2}
		r := future.TraverseSeq(in, func(i int) F { return k[i] }, c.exec...)
		in[0], in[1], in[2] = 2, 2, 2
		return future.Map(r, func(s fp.Seq[int]) int { return comb3(s[0], s[1], s[2]) }, c.exec...)
	}, trav)
	add("TraverseSlice(input overwritten after the call)", 3, false, func(c *ctx, k []F) F {
		in := []int{0, 1, 2}
		r := future.TraverseSlice(in, func(i int) F { return k[i] }, c.exec...)
		in[0], in[1], in[2] = 2, 2, 2
		return future.Map(r, func(s []int) int { return comb3(s[0], s[1], s[2]) }, c.exec...)
	}, trav)
	add("Traverse(Take of an iterator the caller drains after the call)", 3, false, func(c *ctx, k []F) F {
		it := iterator.Of(0, 1, 2, 0, 0)
		r := future.Traverse(it.Take(3), func(i int) F { return k[i] }, c.exec...)
		it.ToSeq()
		return future.Map(r, func(it fp.Iterator[int]) int { s := it.ToSeq(); return comb3(s[0], s[1], s[2]) }, c.exec...)
	}, trav)
	add("Sequence(input overwritten after the call)", 3, false, func(c *ctx, k []F) F {
		in := []F{k[0], k[1], k[2]}
		r := future.Sequence(in, c.exec...)
		in[0], in[1], in[2] = k[2], k[2], k[2]
		return future.Map(r, func(s []int) int { return comb3(s[0], s[1], s[2]) }, c.exec...)
	}, m3)
	return ks
}

// ---- source behaviour vector ----

const (
	bPreS  = iota // completed with success before the expression is built (default)
	bConcS        // completed with success by a concurrent thread
	bConcF        // completed with failure by a concurrent thread
	bPend         // not completed until the first quiescent point
	bPreF         // completed with failure before the expression is built
	nBehav
)

var behavNames = []string{"pre-success", "concurrent-success", "concurrent-failure", "pending", "pre-failure"}

func scenario(root *node, nsrc int, execKind string, maxDev int) func(x *mc.X) {
	return func(x *mc.X) {
		c := &ctx{x: x, log: map[string]int{}, rlog: map[string]int{}}
		switch execKind {
		case "sync":
			c.exec = []fp.Executor{sync{}}
		case "spawn":
			c.exec = []fp.Executor{spawner{x}}
		}
		// deviation-bounded behaviour vector: at most maxDev sources deviate from pre-success
		behav := make([]int, nsrc)
		dev := 0
		for i := 0; i < nsrc; i++ {
			if dev >= maxDev {
				break
			}
			b := x.Choose(nBehav, fmt.Sprintf("behaviour of s%d", i))
			behav[i] = b
			if b != bPreS {
				dev++
			}
		}
		if x.Recording() {
			var bs []string
			for i, b := range behav {
				bs = append(bs, fmt.Sprintf("s%d:%s", i, behavNames[b]))
			}
			x.Logf("expression %s ; sources %s ; executor %s", root, strings.Join(bs, " "), execKind)
		}
		c.src = make([]fp.Promise[int], nsrc)
		c.state = make([]tri, nsrc)
		for i := range c.src {
			c.src[i] = fp.NewPromise[int]()
			c.state[i] = pend()
		}
		complete := func(i int, ok bool) {
			if ok {
				c.src[i].Success(i + 1)
			} else {
				c.src[i].Failure(srcErr[i])
			}
		}
		final := make([]tri, nsrc) // what each source holds once it is completed
		for i, b := range behav {
			switch b {
			case bPreS, bConcS, bPend:
				final[i] = succ(i + 1)
			default:
				final[i] = fail(srcErr[i])
			}
			if b == bPreS || b == bPreF {
				complete(i, b == bPreS)
				c.state[i] = final[i]
			}
		}
		for i, b := range behav {
			if b == bConcS || b == bConcF {
				i, b := i, b
				x.Go(fmt.Sprintf("complete-s%d", i), func() { complete(i, b == bConcS) })
				c.state[i] = final[i] // reference view at the first quiescent point
			}
		}
		var derived F
		obs := [2]struct {
			n   int
			got tri
		}{}
		observe := func(k int) {
			derived.OnComplete(func(t fp.Try[int]) {
				obs[k].n++
				obs[k].got = fromTry(t)
			}, c.exec...)
		}
		derived = root.build(c)
		observe(0)
		check := func(stage string) {
			blocked := x.AwaitQuiescence()
			if x.HasFailed() {
				return
			}
			if len(blocked) > 0 {
				x.Fail(root.k.name+"/blocked", "threads blocked at quiescence (%s): %v ; expression %s", stage, blocked, root)
			}
			c.rlog = map[string]int{}
			want := root.eval(c)
			needed := map[string]int{}
			root.needed(c, needed)
			var got tri
			x.NoPoints(func() {
				if derived.IsCompleted() {
					got = fromTry(derived.Value())
				} else {
					got = pend()
				}
			})
			x.Logf("%s: reference %s, derived future %s", stage, want, got)
			if want.pending && !got.pending {
				x.Fail(root.k.name+"/completed-early", "%s: derived future completed with %s although the sources its value depends on are not complete (reference: Pending); expression %s", stage, got, root)
			}
			if !want.pending && got.pending {
				x.Fail(root.k.name+"/never-completes", "%s: derived future is not completed although all sources it depends on are (reference: %s); expression %s", stage, want, root)
			}
			if !same(want, got) {
				x.Fail(root.k.name+"/wrong-value", "%s: derived future holds %s, evaluation over Try gives %s; expression %s", stage, got, want, root)
			}
			for k := range obs {
				if stage == "first quiescence" && k == 1 {
					continue
				}
				wantN := 1
				if want.pending {
					wantN = 0
				}
				if obs[k].n != wantN {
					x.Fail(root.k.name+"/observer-count", "%s: observer %d ran %d times, want %d; expression %s", stage, k, obs[k].n, wantN, root)
				}
				if wantN == 1 && !same(obs[k].got, want) {
					x.Fail(root.k.name+"/observer-value", "%s: observer %d saw %s, want %s; expression %s", stage, k, obs[k].got, want, root)
				}
			}
			for name, n := range c.log {
				if n > needed[name] {
					x.Fail(root.k.name+"/supplier-not-needed", "%s: %s was invoked %d times, the left-to-right evaluation of the sub-expressions needs it %d times; expression %s", stage, name, n, needed[name], root)
				}
			}
			x.Observe(stage, got.String())
		}
		check("first quiescence")
		if x.HasFailed() {
			return
		}
		first := root.eval(c)
		// now complete what is still pending (sequentially) and look again
		observe(1)
		for i, b := range behav {
			if b == bPend {
				complete(i, true)
				c.state[i] = final[i]
			}
		}
		check("all sources complete")
		if x.HasFailed() {
			return
		}
		if !first.pending {
			if now := root.eval(c); !same(first, now) {
				// a completed future never changes: the reference itself must be stable here
				x.Fail(root.k.name+"/reference-unstable", "internal: reference changed from %s to %s", first, now)
			}
		}
		if x.Interacted() {
			x.NonTrivial()
		}
		x.Tag(root.k.name)
	}
}

// Apply family: always completes, panics become failures exposing the panic value.
func applyScenario(execKind string) func(x *mc.X) {
	return func(x *mc.X) {
		var ex []fp.Executor
		switch execKind {
		case "sync":
			ex = []fp.Executor{sync{}}
		case "spawn":
			ex = []fp.Executor{spawner{x}}
		}
		which := x.Choose(6, "constructor")
		mode := x.Choose(4, "function behaviour")
		pv := []any{"boom", errK, 7}[x.Choose(3, "panic value")]
		body := func() (int, error) {
			x.Point("apply-body", "user function")
			switch mode {
			case 0:
				return 3, nil
			case 1:
				return 0, nil
			case 2:
				return 0, errK
			}
			panic(pv)
		}
		var f F
		errMode := true
		switch which {
		case 0:
			errMode = false
			f = future.Apply(func() int { v, _ := body(); return v }, ex...)
		case 1:
			f = future.Apply2(body, ex...)
		case 2:
			f = future.Func0(body, ex...)(fp.Unit{})
		case 3:
			f = future.Func1(func(a int) (int, error) { v, e := body(); return v + a, e }, ex...)(10)
		case 4:
			f = future.Func2(func(a, b int) (int, error) { v, e := body(); return v + a + b, e }, ex...)(10, 20)
		case 5:
			u := future.Unit1(func(a int) error { _, e := body(); return e }, ex...)(10)
			f = future.Map(u, func(fp.Unit) int { return 0 })
		}
		n := 0
		var seen tri
		f.OnComplete(func(t fp.Try[int]) { n++; seen = fromTry(t) }, ex...)
		blocked := x.AwaitQuiescence()
		if x.HasFailed() {
			return
		}
		name := []string{"Apply", "Apply2", "Func0", "Func1", "Func2", "Unit1"}[which]
		if len(blocked) > 0 {
			x.Fail(name+"/blocked", "threads blocked: %v", blocked)
		}
		var got tri
		x.NoPoints(func() {
			if f.IsCompleted() {
				got = fromTry(f.Value())
			} else {
				got = pend()
			}
		})
		if got.pending {
			x.Fail(name+"/never-completes", "future.%s never completed (function behaviour %d)", name, mode)
		}
		if n != 1 {
			x.Fail(name+"/observer-count", "observer ran %d times", n)
		}
		_ = seen
		switch {
		case mode == 3:
			if got.ok {
				x.Fail(name+"/panic-lost", "function panicked with %v but future.%s succeeded with %d", pv, name, got.v)
			}
			exposed := false
			var pe interface{ Panic() any }
			if errors.As(got.err, &pe) {
				exposed = pe.Panic() == pv
			}
			if e, ok := pv.(error); ok && errors.Is(got.err, e) {
				exposed = true
			}
			if !exposed && !strings.Contains(got.err.Error(), fmt.Sprint(pv)) {
				x.Fail(name+"/panic-value-not-exposed", "failure %v does not expose the panic value %v", got.err, pv)
			}
		case mode == 2 && errMode:
			if got.ok || got.err != errK {
				x.Fail(name+"/error-lost", "function returned error %v, future holds %s", errK, got)
			}
		default:
			if !got.ok {
				x.Fail(name+"/normal-return-failed", "function returned normally, future holds %s", got)
			}
		}
		x.Observe(name, mode, got.ok, got.pending) // not the error text: a PanicError carries a stack trace
		x.NonTrivial()
	}
}

func main() {
	mc.Main("C06", func(r *mc.Registry) {
		r.Rule = "scenario = (expression tree, executor); inside: a deviation-bounded behaviour vector for the sources (each source is pre-completed success by default, or completes concurrently with success/failure, stays pending until the first quiescent point, or is pre-completed with failure) and every interleaving (sleep-set reduced) of the builder thread, the completer threads and all callback tasks at each atomic step; non-trivial = the scheduler switched between threads that had both started; distinct = distinct (stage, derived state) observation sequences"
		r.Assumptions = []string{
			"the three-valued reference (Pending | Try, left-to-right short circuit, Traverse sequential, Sequence positional) of DESIGN.md appendix A.2",
			"sync/atomic operations are the only inter-thread communication of Promise/Future; shims preserve semantics",
			"atomic loads are not scheduling points of their own (SilentLoads): every load in Promise is either validated by the compare-and-swap that follows it or reads a completed (immutable) result; the promise protocol at full load/CAS granularity is C05's",
			"two atomic loads of one promise cell commute (ReadsCommute): the plain-memory work between a load and the thread's next atomic step is order independent; the one place where it is not (the callback slice) is covered by C05 without this reduction",
			"user callbacks do not panic (only Apply/Apply2/Func* promise to capture panics)",
		}
		if r.Thorough() {
			r.Deadline = 120 * time.Minute
		}
		if !mc.Instrumented {
			panic("C06 must be built with the overlay (-tags verifrt)")
		}
		ks := kinds()
		leaf := func(i int) *node { return &node{src: i} }
		count := 0
		addTree := func(root *node, exec string, maxDev int) {
			n := root.maxSrc() + 2 // plus the callback source
			sc := r.Conc(fmt.Sprintf("%s/%s", root, exec), -1, scenario(root, n, exec, maxDev))
			sc.SplitDepth = 4
			sc.Shard = n >= 4 || strings.HasPrefix(root.String(), "Chain(3)") // the last-link kind alone is 1.2 million runs
			sc.ReadsCommute = true
			sc.SilentLoads = true
			count++
		}
		// deviation bounds: one-node trees 2 (thorough 3); two-node trees 1 (thorough: 2 when both
		// kinds are core kinds, else 1)
		oneDev, twoDevCore, twoDevOther := 2, 1, 0
		if r.Thorough() {
			oneDev, twoDevCore, twoDevOther = 3, 2, 1
		}
		maxDev := oneDev
		// one-node trees: every kind; every executor for core kinds (thorough: for all)
		for _, k := range ks {
			kids := make([]*node, k.arity)
			for i := range kids {
				kids[i] = leaf(i)
			}
			for _, ex := range []string{"default", "sync", "spawn"} {
				if !r.Thorough() && ex != "default" && !k.core {
					continue
				}
				if !r.Thorough() && strings.HasPrefix(k.name, "Chain3") {
					continue // 2.7 million schedules on its own; thorough only
				}
				addTree(&node{k: k, kids: kids}, ex, oneDev)
			}
		}
		// two-node trees: root R with one inner node K in each argument position
		execs := []string{"default"}
		if r.Thorough() {
			execs = []string{"default", "spawn"}
		}
		for _, R := range ks {
			for _, K := range ks {
				bothCore := R.core && K.core
				dev := twoDevOther
				if bothCore {
					dev = twoDevCore
				}
				if dev == 0 || !(R.core || K.core) {
					continue
				}
				if !r.Thorough() && R.arity+K.arity-1 > 3 {
					continue // quick: at most three operand sources (plus the callback source)
				}
				// thorough, as measured (400 million runs in 90 minutes covered 60 % of the original
				// plan): five-source trees (about 25 million runs each) are left out, four-source
				// trees are explored for pairs of core kinds with one deviating source
				nsrc := R.arity + K.arity - 1
				if nsrc > 4 || (nsrc == 4 && !bothCore) {
					continue
				}
				if nsrc == 4 {
					dev = 1
				}
				for pos := 0; pos < R.arity; pos++ {
					next := 0
					kids := make([]*node, R.arity)
					for i := range kids {
						if i == pos {
							ik := make([]*node, K.arity)
							for j := range ik {
								ik[j] = leaf(next)
								next++
							}
							kids[i] = &node{k: K, kids: ik}
						} else {
							kids[i] = leaf(next)
							next++
						}
					}
					for _, ex := range execs {
						if ex != "default" && (!bothCore || nsrc > 3) {
							continue
						}
						addTree(&node{k: R, kids: kids}, ex, dev)
					}
				}
			}
		}
		for _, ex := range []string{"default", "sync", "spawn"} {
			r.Conc("apply-family/"+ex, -1, applyScenario(ex)).Shard = true
		}
		// fan-out on one pending source at FULL load/CAS granularity (no SilentLoads/ReadsCommute):
		// k derived futures are registered on b sequentially, then two more are registered from
		// concurrently running callback tasks (FlatMap over already completed futures whose
		// continuation maps b), then b is completed. Every derived future must complete exactly
		// once with b's value. This is the promise callback list as the combinators use it.
		for _, k := range []int{0, 1, 3} {
			k := k
			sc := r.Conc(fmt.Sprintf("fanout/k%d", k), -1, func(x *mc.X) {
				b := fp.NewPromise[int]()
				var derived []F
				for i := 0; i < k; i++ {
					derived = append(derived, future.Map(b.Future(), func(v int) int { return v + 100 }))
				}
				for i := 0; i < 2; i++ {
					i := i
					derived = append(derived, future.FlatMap(future.Successful(i), func(v int) F {
						return future.Map(b.Future(), func(w int) int { return w + v })
					}))
				}
				// only the two registering callback tasks run concurrently here
				if blocked := x.AwaitQuiescence(); len(blocked) > 0 {
					x.Fail("fanout/blocked", "threads blocked: %v", blocked)
				}
				fail := x.Bool("source fails")
				if fail {
					b.Failure(srcErr[0])
				} else {
					b.Success(7)
				}
				blocked := x.AwaitQuiescence()
				if x.HasFailed() {
					return
				}
				if len(blocked) > 0 {
					x.Fail("fanout/blocked", "threads blocked: %v", blocked)
				}
				for i, d := range derived {
					var done bool
					var got tri
					x.NoPoints(func() {
						done = d.IsCompleted()
						if done {
							got = fromTry(d.Value())
						}
					})
					if !done {
						x.Fail("fanout/never-completes", "derived future %d of %d on a shared source never completed although the source did (k=%d already registered dependants)", i, len(derived), k)
					}
					want := succ(7 + 100)
					if i >= k {
						want = succ(7 + (i - k))
					}
					if fail {
						want = tri{err: srcErr[0]}
					}
					if !same(got, want) {
						x.Fail("fanout/wrong-value", "derived future %d holds %s, want %s", i, got, want)
					}
				}
				if x.Interacted() {
					x.NonTrivial()
				}
				x.Observe(k, fail)
			})
			sc.Shard = true
			sc.SplitDepth = 4
		}
		var names []string
		for _, k := range ks {
			names = append(names, k.name)
		}
		r.Extra["bounds"] = map[string]any{"kinds": names, "trees": count, "max_nodes": 2, "max_deviating_sources_one_node": maxDev, "max_deviating_sources_two_nodes_core": twoDevCore, "max_deviating_sources_two_nodes_other": twoDevOther, "behaviours": behavNames}
		r.Extra["uncovered"] = []string{
			"LiftA4..9/LiftM4..9/Flap3..9/Method3..9/Compose3..5 and Applicative/Chain builders beyond arity 3 under the scheduler (their plumbing at every arity is C14's, with completed operands)",
			"expression trees with more than 2 combinator nodes",
			"future.Await and promise.WithTimeout (timers are outside the scheduler)",
		}
	})
}
