// C05 — Promise: single assignment and exactly-once callback delivery.
// Every interleaving (at the granularity of the atomic load/CAS steps of internal/atomic,
// exposed by the overlay shims) of registering and completing threads on one promise.
package main

import (
	"errors"
	"fmt"
	"sort"
	"strings"
	"time"

	"github.com/csgura/fp"
	"verif/mc"
)

type role int

const (
	rOnComplete role = iota
	rOnSuccess
	rOnFailure
	rSuccess
	rFailure
	rForeach
	rTwoReg
	rCompleteS
	rCompleteF
)

var roleNames = []string{"OnComplete", "OnSuccess", "OnFailure", "Success", "Failure", "Foreach", "OnComplete+OnSuccess", "Complete(Success)", "Complete(Failure)"}

func (r role) completer() bool {
	return r == rSuccess || r == rFailure || r == rCompleteS || r == rCompleteF
}

var errs = []error{errors.New("e0"), errors.New("e1"), errors.New("e2"), errors.New("e3")}

type syncExec struct{}

func (syncExec) ExecuteUnsafe(r fp.Runnable) { r.Run() }

type spawnExec struct{ x *mc.X }

func (e spawnExec) ExecuteUnsafe(r fp.Runnable) { e.x.Go("usertask", r.Run) }

// cbLog records invocations of one registered callback.
type cbLog struct {
	id        string
	filter    string // "any", "success", "failure"
	calls     int
	got       []string
	completed []bool
}

func tryStr(t fp.Try[int]) string {
	if t.IsSuccess() {
		return fmt.Sprintf("S%d", t.Get())
	}
	return "F:" + t.Failed().Get().Error()
}

func multisets(n, k int) [][]int {
	var out [][]int
	var rec func(start int, cur []int)
	rec = func(start int, cur []int) {
		if len(cur) == k {
			out = append(out, append([]int(nil), cur...))
			return
		}
		for i := start; i < n; i++ {
			rec(i, append(cur, i))
		}
	}
	rec(0, nil)
	return out
}

func scenario(k int, roles []role, execKind string) func(x *mc.X) {
	return func(x *mc.X) {
		p := fp.NewPromise[int]()
		var ctx []fp.Executor
		switch execKind {
		case "sync":
			ctx = []fp.Executor{syncExec{}}
		case "spawn":
			ctx = []fp.Executor{spawnExec{x}}
		case "nil":
			// an explicit nil Executor (a forwarded optional executor that was never set) means
			// the default executor
			ctx = []fp.Executor{nil}
		}
		var logs []*cbLog
		mk := func(id, filter string) *cbLog {
			l := &cbLog{id: id, filter: filter}
			logs = append(logs, l)
			return l
		}
		regComplete := func(id string) {
			l := mk(id, "any")
			p.Future().OnComplete(func(t fp.Try[int]) {
				l.calls++
				l.got = append(l.got, tryStr(t))
				l.completed = append(l.completed, probe(x, p))
			}, ctx...)
		}
		regSuccess := func(id string, foreach bool) {
			l := mk(id, "success")
			f := func(v int) {
				l.calls++
				l.got = append(l.got, fmt.Sprintf("S%d", v))
				l.completed = append(l.completed, probe(x, p))
			}
			if foreach {
				p.Future().Foreach(f, ctx...)
			} else {
				p.Future().OnSuccess(f, ctx...)
			}
		}
		regFailure := func(id string) {
			l := mk(id, "failure")
			p.Future().OnFailure(func(err error) {
				l.calls++
				l.got = append(l.got, "F:"+err.Error())
				l.completed = append(l.completed, probe(x, p))
			}, ctx...)
		}
		for i := 0; i < k; i++ {
			regComplete(fmt.Sprintf("pre%d", i))
		}
		results := make([]string, len(roles)) // what each completer tried to set
		returned := make([]int, len(roles))   // -1 not a completer / not returned, 0 false, 1 true
		for i := range returned {
			returned[i] = -1
		}
		for i, r := range roles {
			i, r := i, r
			name := fmt.Sprintf("t%d:%s", i, roleNames[r])
			x.Go(name, func() {
				switch r {
				case rOnComplete:
					regComplete(fmt.Sprintf("t%d", i))
				case rOnSuccess:
					regSuccess(fmt.Sprintf("t%d", i), false)
				case rForeach:
					regSuccess(fmt.Sprintf("t%d", i), true)
				case rOnFailure:
					regFailure(fmt.Sprintf("t%d", i))
				case rTwoReg:
					regComplete(fmt.Sprintf("t%da", i))
					regSuccess(fmt.Sprintf("t%db", i), false)
				case rSuccess:
					results[i] = fmt.Sprintf("S%d", 10+i)
					returned[i] = b2i(p.Success(10 + i))
				case rFailure:
					results[i] = "F:" + errs[i].Error()
					returned[i] = b2i(p.Failure(errs[i]))
				case rCompleteS:
					results[i] = fmt.Sprintf("S%d", 10+i)
					returned[i] = b2i(p.Complete(fp.Success(10 + i)))
				case rCompleteF:
					results[i] = "F:" + errs[i].Error()
					returned[i] = b2i(p.Complete(fp.Failure[int](errs[i])))
				}
			})
		}
		blocked := x.AwaitQuiescence()
		if x.HasFailed() {
			return
		}
		if len(blocked) > 0 {
			x.Fail("blocked", "threads still blocked at quiescence: %v", blocked)
		}
		if x.Interacted() {
			x.NonTrivial()
		}
		// ---- oracle ----
		ncomp, winners := 0, []int{}
		for i, r := range roles {
			if r.completer() {
				ncomp++
				if returned[i] == 1 {
					winners = append(winners, i)
				}
				if returned[i] == -1 {
					x.Fail("completer-did-not-return", "completer t%d did not return", i)
				}
			}
		}
		if ncomp == 0 {
			if p.IsCompleted() {
				x.Fail("completed-without-completer", "IsCompleted true without any completion call")
			}
			for _, l := range logs {
				if l.calls != 0 {
					x.Fail("callback-before-completion", "callback %s invoked %d times although the promise was never completed", l.id, l.calls)
				}
			}
			x.Observe("pending", len(logs))
			return
		}
		if len(winners) != 1 {
			x.Fail("single-assignment", "%d completion calls returned true (want exactly 1): returned=%v", len(winners), returned)
		}
		want := results[winners[0]]
		if !p.IsCompleted() {
			x.Fail("not-completed", "IsCompleted false after a completion call returned true")
		}
		if got := tryStr(p.Value()); got != want {
			x.Fail("value-differs", "Value()=%s but the winning call set %s", got, want)
		}
		if got := tryStr(p.Future().Value()); got != want {
			x.Fail("value-differs", "Future.Value()=%s but the winning call set %s", got, want)
		}
		if p.Success(99) || p.Failure(errs[3]) || p.Complete(fp.Success(98)) {
			x.Fail("second-assignment", "a completion attempt after completion returned true")
		}
		if got := tryStr(p.Value()); got != want {
			x.Fail("value-changed", "Value() changed to %s after a late completion attempt (was %s)", got, want)
		}
		// a registration after completion is delivered as well
		regComplete("late")
		if execKind != "sync" {
			x.AwaitQuiescence()
		}
		isSucc := strings.HasPrefix(want, "S")
		var summary []string
		for _, l := range logs {
			exp := 1
			if (l.filter == "success" && !isSucc) || (l.filter == "failure" && isSucc) {
				exp = 0
			}
			if l.calls != exp {
				kind := "lost"
				if l.calls > exp {
					kind = "duplicated"
				}
				x.Fail("callback-"+kind, "callback %s (filter %s) invoked %d times, want %d; result %s; all: %s", l.id, l.filter, l.calls, exp, want, dump(logs))
			}
			for j, g := range l.got {
				if g != want {
					x.Fail("callback-wrong-value", "callback %s saw %s, promise holds %s", l.id, g, want)
				}
				if !l.completed[j] {
					x.Fail("callback-before-completion", "callback %s ran while IsCompleted() was false", l.id)
				}
			}
			summary = append(summary, fmt.Sprintf("%s=%d", l.id, l.calls))
		}
		sort.Strings(summary)
		x.Observe(want, winners[0], summary)
	}
}

// probe reads IsCompleted without adding a scheduling point of its own.
func probe(x *mc.X, p fp.Promise[int]) (b bool) {
	x.NoPoints(func() { b = p.IsCompleted() })
	return
}

func dump(logs []*cbLog) string {
	var s []string
	for _, l := range logs {
		s = append(s, fmt.Sprintf("%s:%d", l.id, l.calls))
	}
	return strings.Join(s, " ")
}

func b2i(b bool) int {
	if b {
		return 1
	}
	return 0
}

func main() {
	mc.Main("C05", func(r *mc.Registry) {
		r.Rule = "scenario = (k pre-registered callbacks, multiset of thread roles, executor); every interleaving of the threads at each atomic Get/Load/Store/CompareAndSwap of internal/atomic and each spawn; non-trivial = an execution in which the scheduler switched between threads that had both started; distinct = distinct (winner, result, per-callback invocation counts) observation"
		r.Assumptions = []string{
			"sync/atomic operations are sequentially consistent and are the only inter-thread communication of Promise (plain accesses between two atomic operations are attributed to the preceding operation; same-cell operations are never reordered by the reduction)",
			"the overlay shims (verifrt) preserve the semantics of the primitives they wrap",
		}
		if r.Thorough() {
			r.Deadline = 90 * time.Minute
		}
		if !mc.Instrumented {
			panic("C05 must be built with the overlay (-tags verifrt)")
		}
		ks := []int{0, 3}
		nroles := 5
		execs := []string{"default", "nil"}
		sizes := []int{2, 3}
		if r.Thorough() {
			ks = []int{0, 1, 2, 3, 4, 5}
			nroles = 9
			execs = []string{"default", "nil", "sync", "spawn"}
		}
		for _, ex := range execs {
			for _, k := range ks {
				if ex != "default" && k != 0 && k != 3 {
					continue // user executors: only without and with the aliasing-prone callback count
				}
				for _, T := range sizes {
					for _, ms := range multisets(nroles, T) {
						roles := make([]role, T)
						names := make([]string, T)
						for i, m := range ms {
							roles[i] = role(m)
							names[i] = roleNames[m]
						}
						two := 0
						for _, rl := range roles {
							if rl == rTwoReg {
								two++
							}
						}
						if two >= 2 {
							// two threads with two registrations each: 1.5-2 million interleavings per
							// scenario (measured; a preemption bound of 2 without reduction costs more):
							// only for the callback count at which the listener slice has spare capacity
							comp := false
							for _, rl := range roles {
								comp = comp || rl.completer()
							}
							// (140 million runs incl. sleep-set pruned ones each: one by-value and one
							// by-Try completer are kept)
							keep := false
							for _, rl := range roles {
								keep = keep || rl == rSuccess || rl == rCompleteF
							}
							if ex == "default" && k == 3 && comp && keep && two == 2 {
								sc := r.Conc(fmt.Sprintf("k%d/%s/%s", k, strings.Join(names, ","), ex), -1, scenario(k, roles, ex))
								sc.SplitDepth = 9 // depth 4 left single shards of 25+ minutes
								sc.Shard = true   // all workers share each of these
							}
							continue
						}
						sc := r.Conc(fmt.Sprintf("k%d/%s/%s", k, strings.Join(names, ","), ex), -1, scenario(k, roles, ex))
						sc.SplitDepth = 3
						// the sleep-set reduction judges independence by the cell of the hooked step, with plain
						// accesses attributed to the preceding step; a conflict that exists only through a plain
						// variable written after one atomic step and read after another on a different cell is
						// invisible to it. Two-thread scenarios are therefore also explored without any reduction
						// under a preemption bound (every schedule with at most 3 preemptions).
						if T == 2 && ex == "default" && (k == 0 || k == 3) {
							nr := r.Conc(fmt.Sprintf("noreduction-pb3/k%d/%s/%s", k, strings.Join(names, ","), ex), 3, scenario(k, roles, ex))
							nr.SplitDepth = 3
						}
					}
				}
			}
		}
		if r.Thorough() {
			// four threads, unbounded with sleep sets (measured: ~0.5 million interleavings and 8 CPU
			// minutes per scenario; a preemption bound without reduction costs ten times more): two
			// registering and two completing threads on a promise whose listener slice has spare capacity
			for _, k := range []int{3} {
				for _, ms := range multisets(5, 4) {
					roles := make([]role, 4)
					names := make([]string, 4)
					reg, comp := 0, 0
					for i, m := range ms {
						roles[i] = role(m)
						names[i] = roleNames[m]
						if roles[i].completer() {
							comp++
						} else if roles[i] == rOnComplete || roles[i] == rOnSuccess {
							reg++
						}
					}
					if reg != 2 || comp != 2 {
						continue
					}
					sc := r.Conc(fmt.Sprintf("t4/k%d/%s/default", k, strings.Join(names, ",")), -1, scenario(k, roles, "default"))
					sc.SplitDepth = 9
					sc.Shard = true
				}
			}
		}
		// a completion with a failure that carries no error (the zero value of Try, Failure(nil)) is a
		// completion like any other: every observer sees the same Try
		r.Seq("nil-error-failure", func(x *mc.X) {
			p := fp.NewPromise[int]()
			view := func(t fp.Try[int]) string {
				return fmt.Sprintf("success=%v error-present=%v", t.IsSuccess(), t.Failed().IsSuccess())
			}
			var seen []string
			reg := func(name string) {
				p.Future().OnComplete(func(t fp.Try[int]) { seen = append(seen, name+": "+view(t)) }, syncExec{})
			}
			nBefore := x.Choose(3, "callbacks before")
			for i := 0; i < nBefore; i++ {
				reg(fmt.Sprintf("before%d", i))
			}
			var ok bool
			how := x.Choose(3, "completion")
			switch how {
			case 0:
				ok = p.Complete(fp.Try[int]{})
			case 1:
				ok = p.Complete(fp.Failure[int](nil))
			case 2:
				ok = p.Failure(nil)
			}
			if !ok {
				x.Fail("nil-error-failure/not-completed", "the first completion attempt returned false")
			}
			reg("after")
			if !p.IsCompleted() {
				x.Fail("nil-error-failure/not-completed", "IsCompleted() is false after the completion")
			}
			want := view(p.Value())
			if len(seen) != nBefore+1 {
				x.Fail("nil-error-failure/callback-count", "%d callbacks ran, %d were registered: %v", len(seen), nBefore+1, seen)
			}
			for _, s := range seen {
				if !strings.HasSuffix(s, ": "+want) {
					x.Fail("nil-error-failure/observers-disagree", "Value() shows [%s] but a callback saw [%s] (all: %v)", want, s, seen)
				}
			}
			x.Observe(nBefore, how, want)
			x.NonTrivial()
		})
		r.Seq("zero-value", func(x *mc.X) {
			var p fp.Promise[int]
			var f fp.Future[int]
			called := 0
			which := x.Choose(8, "op")
			var ok bool
			pv := mc.Catch(func() {
				switch which {
				case 0:
					ok = p.Success(1)
				case 1:
					ok = p.Failure(errs[0])
				case 2:
					ok = p.Complete(fp.Success(1))
				case 3:
					ok = p.IsCompleted() || f.IsCompleted() || p.Future().IsCompleted()
				case 4:
					f.OnComplete(func(fp.Try[int]) { called++ })
					p.Future().OnComplete(func(fp.Try[int]) { called++ })
				case 5:
					f.OnSuccess(func(int) { called++ })
					f.Foreach(func(int) { called++ })
				case 6:
					f.OnFailure(func(error) { called++ })
				case 7:
					ok = p.Success(1)
					ok = ok || p.IsCompleted()
					f.OnComplete(func(fp.Try[int]) { called++ }, syncExec{})
				}
			})
			if pv != nil {
				x.Fail(fmt.Sprintf("zero-value-panic/op%d", which), "zero-value Promise/Future operation %d panicked: %v", which, pv)
			}
			if ok {
				x.Fail(fmt.Sprintf("zero-value-completes/op%d", which), "zero-value Promise reported completion (op %d)", which)
			}
			if called != 0 {
				x.Fail(fmt.Sprintf("zero-value-callback/op%d", which), "zero-value Future invoked a callback (op %d)", which)
			}
			x.Observe(which)
			x.NonTrivial()
		})
	})
}
