module verif

go 1.23

require (
	github.com/csgura/fp v0.0.0
	golang.org/x/tools v0.13.0
)

require (
	golang.org/x/mod v0.12.0 // indirect
	golang.org/x/sys v0.12.0 // indirect
)

replace github.com/csgura/fp => /repo
