#!/bin/bash
# run_all.sh <tier> [ids...] : runs checks one after another, prints one summary line each
tier="${1:-quick}"; shift
ids="$@"; [ -z "$ids" ] && ids=$(python3 -c "import json;print(' '.join(c['property_id'] for c in json.load(open('MANIFEST.json'))['checks']))")
for id in $ids; do
  s=$(date +%s)
  out=$(./vcheck $id $tier 2>&1); rc=$?
  e=$(date +%s)
  echo "$id rc=$rc wall=$((e-s))s :: $(echo "$out" | grep -E "^$id " | tail -1)"
  echo "$out" | grep -E "VIOLATION|KNOWN-FINDING|INTERNAL|vcheck:" | head -10
  # keep a copy of the thorough evidence: evidence/<id>.json is rewritten by the next (quick) run
  if [ "$tier" = thorough ] && [ -f evidence/$id.json ]; then mkdir -p evidence-thorough; cp evidence/$id.json evidence-thorough/$id.json; fi
done
