#!/usr/bin/env python3
"""Write one seeder prompt per property for round N: tools/mkseedprompts.py N
Output: /tmp/seed<N>-out/prompt-<ID>.txt; worktrees /tmp/seed<N>/<ID> are created (detached HEAD of /repo).
The prompt contains the property text and one-line descriptions of the earlier seeds (for diversity) only."""
import json, os, subprocess, sys, glob
n = sys.argv[1]
tmpl = open('/verif/seeded/PROMPT.tmpl').read()
tmpl = tmpl.replace('/tmp/seed/', f'/tmp/seed{n}/').replace('/tmp/seed-out/', f'/tmp/seed{n}-out/').replace('/tmp/seed or /tmp/seed-out', f'/tmp/seed{n} or /tmp/seed{n}-out')
tmpl = tmpl.replace('`export GOFLAGS=-mod=mod GOPROXY=off', '`export GOFLAGS="-mod=mod -trimpath" GOPROXY=off')
tmpl = tmpl.replace("(use `git -C W stash` / `git -C W stash pop`, or a second copy)", "(use a second copy of the tree made with `cp -r` or `git -C W diff > p; git -C W apply -R p; ...; git -C W apply p`; do NOT use git stash, the stash is shared between worktrees)")
props = [json.loads(l) for l in open('/verif/properties.jsonl')]
os.makedirs(f'/tmp/seed{n}-out', exist_ok=True)
os.makedirs(f'/tmp/seed{n}', exist_ok=True)
texts = {}
for p in props:
    pid = p['id']
    earlier = []
    for d in sorted(glob.glob(f'/verif/seeded/{pid}*')):
        try:
            m = json.load(open(d + '/meta.json'))
        except Exception:
            continue
        if m.get('breaks'):
            earlier.append('  - ' + m['breaks'])
    text = f"=== {pid} (worktree /tmp/seed{n}/{pid}, output /tmp/seed{n}-out/{pid}) ===\nProperty {pid} — {p.get('title','')}\n\n{p.get('statement','')}\n\nQuantified over: {(p.get('quantifier') or {}).get('text','')}\n"
    if earlier:
        text += "\nEarlier seeders already made these changes for this property; pick a DIFFERENT function AND a different mechanism (prefer a bug that needs a multi-step sequence, two cooperating sites, a specific interleaving, or an unusual but legal input shape that none of these needs; look at parts of the property statement and at library functions that none of them touches):\n" + "\n".join(earlier) + "\n"
    texts[pid] = text
    w = f'/tmp/seed{n}/{pid}'
    if not os.path.exists(w):
        subprocess.check_call(['git', '-C', '/repo', 'worktree', 'add', '--detach', '-q', w, 'HEAD'])
    os.makedirs(f'/tmp/seed{n}-out/{pid}', exist_ok=True)
ids = [p['id'] for p in props]
half = len(ids) // 2
for i in range(half):
    a, b = ids[i], ids[i + half]
    out = tmpl.replace('{N}', '2').replace('{PROPS}', texts[a] + "\n\n" + texts[b])
    open(f'/tmp/seed{n}-out/prompt-{a}.txt', 'w').write(out)
print('ok')
