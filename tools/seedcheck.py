#!/usr/bin/env python3
"""seedcheck.py <ID> [check ids...]  — verifies one seeded change (from /tmp/seed-out/<ID> or /verif/seeded/<ID>)
in fresh scratch copies of /repo:
  1. the patch applies, the module builds, the repository's test suite passes;
  2. the demonstration fails with the patch and passes without it;
  3. the named checks (default: the property's own) report a VIOLATION against the patched copy.
Writes /verif/seeded/<ID>/{patch.diff,<demo>,meta.json}. /repo itself is never touched."""
import json, os, re, shutil, subprocess, sys, time

ID = sys.argv[1]
checks = sys.argv[2:] or [ID]
tier = os.environ.get('SEED_TIER', 'quick')
src = os.environ.get('SEED_SRC', '/tmp/seed-out') + '/' + ID
dst = '/verif/seeded/' + ID + os.environ.get('SEED_SUFFIX', '')
if not os.path.exists(os.path.join(src, 'patch.diff')):
    src = dst
env = dict(os.environ, GOFLAGS='-mod=mod -trimpath', GOPROXY='off', GOSUMDB='off', GOTOOLCHAIN='local')
W = '/var/tmp/seedcheck-%s-%d' % (ID, os.getpid())
os.makedirs(W)
env['GOTMPDIR'] = W + '/gotmp'
os.makedirs(env['GOTMPDIR'])

def sh(cmd, cwd=None, timeout=3600):
    p = subprocess.run(cmd, shell=True, cwd=cwd, env=env, capture_output=True, text=True, timeout=timeout)
    return p.returncode, (p.stdout + p.stderr)

meta = {"property": ID, "verified_at": time.strftime('%Y-%m-%dT%H:%M:%SZ', time.gmtime()), "repo_head": sh('git -C /repo rev-parse --short HEAD')[1].strip()}
try:
    for name in ('plain', 'patched'):
        sh('rsync -a /repo/ %s/%s/' % (W, name))
        if os.environ.get('SEED_BASE'):
            # a seed written against an earlier commit (later fix commits touched the same lines)
            sh('git checkout -q --detach %s' % os.environ['SEED_BASE'], cwd='%s/%s' % (W, name))
            meta['base_commit'] = os.environ['SEED_BASE']
    rc, out = sh('git apply --whitespace=nowarn %s/patch.diff' % src, cwd=W + '/patched')
    meta['patch_applies'] = rc == 0
    if rc != 0:
        print('PATCH DOES NOT APPLY:', out)
        raise SystemExit(1)
    rc, out = sh('git diff --stat | tail -1', cwd=W + '/patched')
    meta['diffstat'] = out.strip()
    rc, out = sh('go build ./... && go test -vet=off -count=1 ./... 2>&1 | grep -v "no test files"', cwd=W + '/patched')
    bad = [l for l in out.splitlines() if not l.startswith('ok')]
    meta['baseline_tests_pass_with_change'] = (len(bad) == 0 and 'ok' in out)
    meta['baseline_not_ok_lines'] = bad[:10]
    # demonstration
    demos = [f for f in os.listdir(src) if f.endswith('_test.go') or f == 'demo']
    meta['demo'] = demos
    demo_results = {}
    for d in demos:
        p = os.path.join(src, d)
        if d.endswith('_test.go'):
            head = open(p).read(600)
            m = re.search(r'copy to:\s*(\S+)', head)
            pk = (m.group(1) if m else '.').rstrip('/')
            if pk in ('<module root>', 'module', 'root', '(module'):
                pk = '.'
            for name in ('plain', 'patched'):
                tgt = os.path.join(W, name, pk)
                if not os.path.isdir(tgt):
                    tgt = os.path.join(W, name)
                    pk = '.'
                shutil.copy(p, os.path.join(tgt, 'zz_seed_demo_test.go'))
                rc, out = sh('go test -vet=off -count=1 ./%s/ 2>&1 | tail -15' % pk, cwd=os.path.join(W, name))
                ok = ('ok' in out.split() or out.strip().startswith('ok')) and 'FAIL' not in out
                demo_results[name] = 'pass' if ok else 'fail'
                os.remove(os.path.join(tgt, 'zz_seed_demo_test.go'))
        else:
            for name in ('plain', 'patched'):
                work = os.path.join(W, 'demo-' + name)
                shutil.copytree(p, work)
                gm = os.path.join(work, 'go.mod')
                if os.path.exists(gm):
                    s = open(gm).read()
                    s = re.sub(r'replace github.com/csgura/fp => \S+', 'replace github.com/csgura/fp => %s/%s' % (W, name), s)
                    open(gm, 'w').write(s)
                else:
                    open(gm, 'w').write('module demo\n\ngo 1.23\n\nrequire github.com/csgura/fp v0.0.0\n\nreplace github.com/csgura/fp => %s/%s\n' % (W, name))
                shutil.copy('/repo/go.sum', os.path.join(work, 'go.sum'))
                rc, out = sh('go run . %s/%s 2>&1 | tail -15' % (W, name), cwd=work)
                demo_results[name] = 'fail' if ('VIOLATION' in out or 'exit status' in out) else 'pass'
    meta['demo_result'] = demo_results
    # the checks
    meta['checks'] = {}
    for c in checks:
        t0 = time.time()
        rc, out = sh('VERIF_REPO=%s/patched VERIF_OUT_DIR=%s/out /verif/vcheck %s %s' % (W, W, c, tier), cwd='/verif', timeout=7200)
        keys = re.findall(r'scenario=(\S.*?) key=(\S+)', out)
        summary = [l for l in out.splitlines() if l.startswith(c + ' ')]
        meta['checks'][c] = {"tier": tier, "exit": rc, "violation_lines": out.count('VIOLATION property='), "keys": sorted(set(k for _, k in keys))[:12],
                             "example": (keys[0][0] + ' : ' + keys[0][1]) if keys else None, "summary": summary[-1] if summary else out[-300:], "wall_s": round(time.time() - t0, 1)}
    os.makedirs(dst, exist_ok=True)
    if src != dst:
        for f in os.listdir(src):
            if f in ('patch.diff', 'NOTES.md') or f.endswith('_test.go'):
                shutil.copy(os.path.join(src, f), os.path.join(dst, f))
            elif f == 'demo':
                shutil.rmtree(os.path.join(dst, 'demo'), ignore_errors=True)
                shutil.copytree(os.path.join(src, f), os.path.join(dst, 'demo'))
    old = {}
    if os.path.exists(os.path.join(dst, 'meta.json')):
        old = json.load(open(os.path.join(dst, 'meta.json')))
    for k in ('needs_to_manifest', 'breaks', 'origin'):
        if k in old:
            meta[k] = old[k]
    if 'checks' in old:
        merged = old['checks']
        merged.update(meta['checks'])
        meta['checks'] = merged
    json.dump(meta, open(os.path.join(dst, 'meta.json'), 'w'), indent=1)
    print(json.dumps(meta, indent=1))
finally:
    shutil.rmtree(W, ignore_errors=True)
