#!/bin/bash
# mutate.sh <name> <python-substitution-script> <check> [tier]   -- applies an edit to a scratch copy of /repo,
# runs the baseline tests of the touched packages and the named check against the copy, then removes the copy.
# The python script receives the copy's root as argv[1].
set -u
name="$1"; script="$2"; check="$3"; tier="${4:-quick}"
W=/var/tmp/mut-$name-$$
rm -rf "$W" && mkdir -p "$W" && cp -r /repo "$W/repo" || exit 2
python3 "$script" "$W/repo" || { echo "mutate: edit failed"; rm -rf "$W"; exit 2; }
( cd "$W/repo" && git diff --stat | tail -3 )
export GOFLAGS="-mod=mod -trimpath" GOPROXY=off GOSUMDB=off GOTOOLCHAIN=local
if [ "${SKIP_BASELINE:-0}" != 1 ]; then
  ( cd "$W/repo" && go build ./... && go test -vet=off -count=1 ./... 2>&1 | grep -v "no test files" | grep -v "^ok" | head -20; echo "baseline-done" )
fi
for c in $check; do
  VERIF_REPO="$W/repo" VERIF_OUT_DIR="$W/out" /verif/vcheck "$c" "$tier" 2>&1 | cut -c1-300 | grep -E "VIOLATION|scenario=|KNOWN|INTERNAL|vcheck:|^C[0-9]+ " | head -${MUT_LINES:-12}
done
rm -rf "$W"
