#!/usr/bin/env python3
"""Writes /verif/MANIFEST.json. A property is claimed iff harness/<id>/READY exists."""
import json, os, subprocess
V = os.path.dirname(os.path.dirname(os.path.abspath(__file__)))
props = [json.loads(l) for l in open(os.path.join(V, 'properties.jsonl'))]
info = json.load(open(os.path.join(V, 'tools', 'checks.json')))
checks, na = [], []
for p in props:
    pid = p['id']
    d = os.path.join(V, 'harness', pid.lower())
    i = info.get(pid, {})
    if os.path.exists(os.path.join(d, 'READY')):
        checks.append({
            "property_id": pid,
            "quick_cmd": f"./vcheck {pid} quick",
            "thorough_cmd": f"./vcheck {pid} thorough",
            "evidence_file": f"/verif/evidence/{pid}.json",
            "replay_cmd_template": f"./vcheck {pid} --replay {{path}}",
            "engine": "mc",
            "level_claimed": {"category": "model_checking", "text": i.get("text", ""), "design_ref": i.get("design_ref", "DESIGN.md section 4, " + pid)},
            "level_note": i.get("note", ""),
            "technique": i.get("technique", "stateless model checking of the implementation (exhaustive choice-tree enumeration with replay)"),
        })
    else:
        na.append({"property_id": pid, "reason": i.get("na_reason", "check not built yet in this round; design in DESIGN.md section 4")})
fixes = subprocess.run(['git', '-C', '/repo', 'log', '--format=%h %s'], capture_output=True, text=True).stdout.splitlines()
m = {
    "version": 1,
    "setup_cmd": "./setup.sh",
    "hooks": {
        "guard": "none (instrumentation is a go build -overlay generated per run from /repo's working tree by bin/vinstr; /repo carries no hook code; harness side uses build tag verifrt)",
        "enable": "vcheck runs: bin/vinstr -repo /repo -rt /verif/rt -out <scratch>/overlay && go build -tags verifrt -overlay <scratch>/overlay/overlay.json ./harness/<id>",
        "baseline_off_cmd": "cd /repo && GOFLAGS=-mod=mod GOPROXY=off go test -json -vet=off -count=1 -timeout 25m ./...",
        "source_commits": [],
        "add_only": True,
    },
    "engines": [{
        "name": "mc",
        "path": "/verif/mc",
        "serves_properties": [c["property_id"] for c in checks],
        "kind_free_text": "hand-written stateless model checker for Go: exhaustive choice-tree DFS with deterministic replay (odometer), cooperative scheduler over hooked sync/atomic/mutex/once/go operations with sleep-set reduction or preemption bounding, explicit-state BFS for the HAMT, subprocess sharding with crash journaling, replay artefacts, known-findings matcher",
    }],
    "checks": checks,
    "not_applicable": na,
    "notes": "All checks rebuild their harness against /repo's working tree on every run (replace github.com/csgura/fp => /repo). fix: commits in /repo: " + "; ".join(f for f in fixes if ' fix:' in f),
}
json.dump(m, open(os.path.join(V, 'MANIFEST.json'), 'w'), indent=1)
print("claimed:", [c["property_id"] for c in checks])
