package main

import (
	"bytes"
	"fmt"
	"go/ast"
	"go/format"
	"go/token"
	"go/types"
	"os"
	"path/filepath"
	"strconv"

	"golang.org/x/tools/go/ast/astutil"
	"golang.org/x/tools/go/packages"
)

// mapPointsOverlay rewrites, in the given packages only, every `range` over a map into
// verifrt.MapRange and puts verifrt.MapWrite before every map element assignment and delete, so
// that plain map accesses become scheduling points; the sync / sync-atomic / go rewriting is
// applied to the same files.
func mapPointsOverlay(repo, out string, patterns []string, replace map[string]string) ([]string, error) {
	cfg := &packages.Config{
		Mode: packages.NeedName | packages.NeedFiles | packages.NeedSyntax | packages.NeedTypes | packages.NeedTypesInfo | packages.NeedImports | packages.NeedDeps | packages.NeedCompiledGoFiles,
		Dir:  repo,
		Env:  append(os.Environ(), "GOFLAGS=-mod=mod", "GOPROXY=off", "GOSUMDB=off", "GOTOOLCHAIN=local"),
	}
	pkgs, err := packages.Load(cfg, patterns...)
	if err != nil {
		return nil, err
	}
	var report []string
	for _, p := range pkgs {
		if len(p.Errors) > 0 {
			return nil, fmt.Errorf("package %s: %v", p.PkgPath, p.Errors[0])
		}
		for i, f := range p.Syntax {
			file := p.CompiledGoFiles[i]
			rel, _ := filepath.Rel(repo, file)
			n := 0
			isMap := func(e ast.Expr) bool {
				t := p.TypesInfo.TypeOf(e)
				if t == nil {
					return false
				}
				_, ok := t.Underlying().(*types.Map)
				return ok
			}
			site := func(pos token.Pos) ast.Expr {
				ps := p.Fset.Position(pos)
				return &ast.BasicLit{Kind: token.STRING, Value: strconv.Quote(fmt.Sprintf("%s:%d", rel, ps.Line))}
			}
			call := func(fn string, args ...ast.Expr) *ast.CallExpr {
				return &ast.CallExpr{Fun: &ast.SelectorExpr{X: ast.NewIdent("verifrt_mp"), Sel: ast.NewIdent(fn)}, Args: args}
			}
			astutil.Apply(f, func(c *astutil.Cursor) bool {
				switch s := c.Node().(type) {
				case *ast.RangeStmt:
					if isMap(s.X) {
						s.X = call("MapRange", s.X, site(s.Pos()))
						n++
					}
				case *ast.AssignStmt:
					if c.Index() < 0 {
						return true
					}
					for _, l := range s.Lhs {
						if ix, ok := l.(*ast.IndexExpr); ok && isMap(ix.X) {
							c.InsertBefore(&ast.ExprStmt{X: call("MapWrite", ix.X, site(s.Pos()))})
							n++
							break
						}
					}
				case *ast.ExprStmt:
					if c.Index() < 0 {
						return true
					}
					if ce, ok := s.X.(*ast.CallExpr); ok {
						if id, ok := ce.Fun.(*ast.Ident); ok && id.Name == "delete" && len(ce.Args) == 2 && isMap(ce.Args[0]) {
							if _, isBuiltin := p.TypesInfo.Uses[id].(*types.Builtin); isBuiltin {
								c.InsertBefore(&ast.ExprStmt{X: call("MapWrite", ce.Args[0], site(s.Pos()))})
								n++
							}
						}
					}
				}
				return true
			}, nil)
			if n == 0 {
				continue
			}
			spec := &ast.ImportSpec{Name: ast.NewIdent("verifrt_mp"), Path: &ast.BasicLit{Kind: token.STRING, Value: strconv.Quote(modPath + "/verifrt")}}
			f.Decls = append([]ast.Decl{&ast.GenDecl{Tok: token.IMPORT, Specs: []ast.Spec{spec}}}, f.Decls...)
			// the ordinary sync / go rewriting on the same tree
			_, what, err := rewrite(p.Fset, f)
			if err != nil {
				return nil, fmt.Errorf("%s: %v", rel, err)
			}
			var buf bytes.Buffer
			if err := format.Node(&buf, p.Fset, f); err != nil {
				return nil, fmt.Errorf("print %s: %v", rel, err)
			}
			dst := filepath.Join(out, "src", rel)
			os.MkdirAll(filepath.Dir(dst), 0o755)
			if err := os.WriteFile(dst, buf.Bytes(), 0o644); err != nil {
				return nil, err
			}
			replace[file] = dst
			report = append(report, fmt.Sprintf("%s: %d map access point(s) %v", rel, n, what))
		}
	}
	return report, nil
}
