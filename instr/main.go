// vinstr generates a `go build -overlay` for /repo's current working tree:
//   - adds the virtual package github.com/csgura/fp/verifrt (sources under /verif/rt)
//   - rewrites every non-test file that imports sync or sync/atomic, or contains a go
//     statement, so that those operations go through the verifrt shims.
//
// /repo itself is never modified.
package main

import (
	"bytes"
	"encoding/json"
	"flag"
	"fmt"
	"go/ast"
	"go/format"
	"go/parser"
	"go/token"
	"os"
	"path/filepath"
	"strconv"
	"strings"
)

const modPath = "github.com/csgura/fp"

func main() {
	repo := flag.String("repo", "/repo", "repository root")
	rt := flag.String("rt", "/verif/rt", "verifrt sources")
	out := flag.String("out", "", "output directory (overlay.json is written there)")
	mapPoints := flag.String("mappoints", "", "comma separated package patterns whose plain map accesses become scheduling points (in addition to the sync rewriting)")
	mapOrder := flag.String("maporder", "", "comma separated package patterns: instrument map iteration order in these programs and everything of the module they import (no sync/go rewriting)")
	flag.Parse()
	if *out == "" {
		fmt.Fprintln(os.Stderr, "vinstr: -out required")
		os.Exit(2)
	}
	replace := map[string]string{}
	// virtual package
	err := filepath.Walk(*rt, func(p string, info os.FileInfo, err error) error {
		if err != nil || info.IsDir() || !strings.HasSuffix(p, ".go") {
			return err
		}
		rel, _ := filepath.Rel(*rt, p)
		replace[filepath.Join(*repo, "verifrt", rel)] = p
		return nil
	})
	if err != nil {
		die(err)
	}
	var report []string
	n := 0
	if *mapOrder != "" {
		rep, err := mapOrderOverlay(*repo, *out, strings.Split(*mapOrder, ","), replace)
		if err != nil {
			die(err)
		}
		os.MkdirAll(*out, 0o755)
		b, _ := json.MarshalIndent(map[string]any{"Replace": replace}, "", " ")
		if err := os.WriteFile(filepath.Join(*out, "overlay.json"), b, 0o644); err != nil {
			die(err)
		}
		os.WriteFile(filepath.Join(*out, "report.txt"), []byte(strings.Join(rep, "\n")+"\n"), 0o644)
		return
	}
	if *mapPoints != "" {
		rep, err := mapPointsOverlay(*repo, *out, strings.Split(*mapPoints, ","), replace)
		if err != nil {
			die(err)
		}
		report = append(report, rep...)
	}
	err = filepath.Walk(*repo, func(p string, info os.FileInfo, err error) error {
		if err != nil {
			return err
		}
		if _, done := replace[p]; done {
			return nil
		}
		if info.IsDir() {
			name := info.Name()
			if p != *repo && (strings.HasPrefix(name, ".") || name == "testdata" || name == "verifrt") {
				return filepath.SkipDir
			}
			return nil
		}
		if !strings.HasSuffix(p, ".go") || strings.HasSuffix(p, "_test.go") {
			return nil
		}
		src, err := os.ReadFile(p)
		if err != nil {
			return err
		}
		if !bytes.Contains(src, []byte(`"sync"`)) && !bytes.Contains(src, []byte(`"sync/atomic"`)) && !bytes.Contains(src, []byte("go ")) {
			return nil
		}
		fset := token.NewFileSet()
		f, err := parser.ParseFile(fset, p, src, parser.ParseComments)
		if err != nil {
			return fmt.Errorf("parse %s: %v", p, err)
		}
		changed, what, err := rewrite(fset, f)
		if err != nil {
			return fmt.Errorf("%s: %v", p, err)
		}
		if !changed {
			return nil
		}
		var buf bytes.Buffer
		if err := format.Node(&buf, fset, f); err != nil {
			return fmt.Errorf("print %s: %v", p, err)
		}
		n++
		rel, _ := filepath.Rel(*repo, p)
		dst := filepath.Join(*out, "src", rel)
		os.MkdirAll(filepath.Dir(dst), 0o755)
		if err := os.WriteFile(dst, buf.Bytes(), 0o644); err != nil {
			return err
		}
		replace[p] = dst
		report = append(report, rel+": "+strings.Join(what, ", "))
		return nil
	})
	if err != nil {
		die(err)
	}
	os.MkdirAll(*out, 0o755)
	b, _ := json.MarshalIndent(map[string]any{"Replace": replace}, "", " ")
	if err := os.WriteFile(filepath.Join(*out, "overlay.json"), b, 0o644); err != nil {
		die(err)
	}
	os.WriteFile(filepath.Join(*out, "report.txt"), []byte(strings.Join(report, "\n")+"\n"), 0o644)
}

func die(err error) {
	fmt.Fprintln(os.Stderr, "vinstr:", err)
	os.Exit(2)
}

func rewrite(fset *token.FileSet, f *ast.File) (bool, []string, error) {
	changed := false
	var what []string
	for _, im := range f.Imports {
		path, _ := strconv.Unquote(im.Path.Value)
		switch path {
		case "sync":
			im.Path.Value = strconv.Quote(modPath + "/verifrt/vsync")
			if im.Name == nil {
				im.Name = ast.NewIdent("sync")
			}
			changed = true
			what = append(what, "sync->vsync")
		case "sync/atomic":
			im.Path.Value = strconv.Quote(modPath + "/verifrt/vatomic")
			if im.Name == nil {
				im.Name = ast.NewIdent("atomic")
			}
			changed = true
			what = append(what, "sync/atomic->vatomic")
		}
	}
	goCount := 0
	var rerr error
	var visit func(n ast.Node) bool
	rewriteList := func(list []ast.Stmt) {
		for i, st := range list {
			gs, ok := st.(*ast.GoStmt)
			if !ok {
				continue
			}
			repl, err := rewriteGo(gs)
			if err != nil {
				rerr = fmt.Errorf("%s: %v", fset.Position(gs.Pos()), err)
				return
			}
			list[i] = repl
			goCount++
		}
	}
	visit = func(n ast.Node) bool {
		switch b := n.(type) {
		case *ast.BlockStmt:
			rewriteList(b.List)
		case *ast.CaseClause:
			rewriteList(b.Body)
		case *ast.CommClause:
			rewriteList(b.Body)
		case *ast.LabeledStmt:
			if gs, ok := b.Stmt.(*ast.GoStmt); ok {
				repl, err := rewriteGo(gs)
				if err != nil {
					rerr = err
				} else {
					b.Stmt = repl
					goCount++
				}
			}
		case *ast.IfStmt, *ast.ForStmt, *ast.RangeStmt:
			// bodies are BlockStmts, handled above
		}
		return rerr == nil
	}
	ast.Inspect(f, visit)
	if rerr != nil {
		return false, nil, rerr
	}
	// any go statement left (in a position not handled) is an error: fail loudly
	left := 0
	ast.Inspect(f, func(n ast.Node) bool {
		if _, ok := n.(*ast.GoStmt); ok {
			left++
		}
		return true
	})
	if left > 0 {
		return false, nil, fmt.Errorf("%d go statement(s) in an unsupported position", left)
	}
	if goCount > 0 {
		changed = true
		what = append(what, fmt.Sprintf("%d go stmt->verifrt.Go", goCount))
		// add the import
		spec := &ast.ImportSpec{Name: ast.NewIdent("verifrt_"), Path: &ast.BasicLit{Kind: token.STRING, Value: strconv.Quote(modPath + "/verifrt")}}
		decl := &ast.GenDecl{Tok: token.IMPORT, Specs: []ast.Spec{spec}}
		f.Decls = append([]ast.Decl{decl}, f.Decls...)
		f.Imports = append(f.Imports, spec)
	}
	return changed, what, nil
}

// rewriteGo turns `go f(a, b)` into
//
//	func() { _vf := f; _va0 := a; _va1 := b; verifrt_.Go(func() { _vf(_va0, _va1) }) }()
//
// so that function value and arguments are evaluated in the calling goroutine, as the
// go statement does.
func rewriteGo(gs *ast.GoStmt) (ast.Stmt, error) {
	call := gs.Call
	switch fn := call.Fun.(type) {
	case *ast.Ident, *ast.SelectorExpr, *ast.FuncLit, *ast.IndexExpr, *ast.IndexListExpr, *ast.ParenExpr:
		_ = fn
	default:
		return nil, fmt.Errorf("go statement with unsupported function expression %T", call.Fun)
	}
	var stmts []ast.Stmt
	assign := func(name string, e ast.Expr) {
		stmts = append(stmts, &ast.AssignStmt{Lhs: []ast.Expr{ast.NewIdent(name)}, Tok: token.DEFINE, Rhs: []ast.Expr{e}})
	}
	assign("_vf", call.Fun)
	inner := &ast.CallExpr{Fun: ast.NewIdent("_vf")}
	for i, a := range call.Args {
		n := fmt.Sprintf("_va%d", i)
		assign(n, a)
		inner.Args = append(inner.Args, ast.NewIdent(n))
	}
	if call.Ellipsis.IsValid() {
		inner.Ellipsis = 1
	}
	goCall := &ast.CallExpr{
		Fun: &ast.SelectorExpr{X: ast.NewIdent("verifrt_"), Sel: ast.NewIdent("Go")},
		Args: []ast.Expr{&ast.FuncLit{
			Type: &ast.FuncType{Params: &ast.FieldList{}},
			Body: &ast.BlockStmt{List: []ast.Stmt{&ast.ExprStmt{X: inner}}},
		}},
	}
	stmts = append(stmts, &ast.ExprStmt{X: goCall})
	wrapper := &ast.CallExpr{Fun: &ast.FuncLit{Type: &ast.FuncType{Params: &ast.FieldList{}}, Body: &ast.BlockStmt{List: stmts}}}
	return &ast.ExprStmt{X: wrapper}, nil
}
