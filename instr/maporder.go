package main

import (
	"bytes"
	"fmt"
	"go/ast"
	"go/format"
	"go/token"
	"go/types"
	"os"
	"path/filepath"
	"strconv"
	"strings"

	"golang.org/x/tools/go/packages"
)

// mapOrderOverlay type-checks the generator programs and every package of the module they
// import, and rewrites every `range` over a map and every maps.All/Keys/Values call into an
// iteration over verifrt.MapOrder*, so that map iteration order becomes an explicit choice.
// A `go` statement in one of these packages is reported (generators are assumed sequential).
func mapOrderOverlay(repo, out string, roots []string, replace map[string]string) ([]string, error) {
	cfg := &packages.Config{
		Mode: packages.NeedName | packages.NeedFiles | packages.NeedSyntax | packages.NeedTypes | packages.NeedTypesInfo | packages.NeedImports | packages.NeedDeps | packages.NeedCompiledGoFiles,
		Dir:  repo,
		Env:  append(os.Environ(), "GOFLAGS=-mod=mod", "GOPROXY=off", "GOSUMDB=off", "GOTOOLCHAIN=local"),
	}
	pkgs, err := packages.Load(cfg, roots...)
	if err != nil {
		return nil, err
	}
	var report []string
	seen := map[string]bool{}
	var visit func(p *packages.Package) error
	visit = func(p *packages.Package) error {
		if seen[p.PkgPath] {
			return nil
		}
		seen[p.PkgPath] = true
		for _, ip := range p.Imports {
			if err := visit(ip); err != nil {
				return err
			}
		}
		if !(p.PkgPath == modPath || strings.HasPrefix(p.PkgPath, modPath+"/")) || strings.HasPrefix(p.PkgPath, modPath+"/verifrt") {
			return nil
		}
		if len(p.Errors) > 0 {
			return fmt.Errorf("package %s: %v", p.PkgPath, p.Errors[0])
		}
		for i, f := range p.Syntax {
			file := p.CompiledGoFiles[i]
			n := 0
			goStmts := 0
			ast.Inspect(f, func(nd ast.Node) bool {
				switch s := nd.(type) {
				case *ast.GoStmt:
					goStmts++
				case *ast.RangeStmt:
					t := p.TypesInfo.TypeOf(s.X)
					if t == nil {
						return true
					}
					if _, ok := t.Underlying().(*types.Map); ok {
						pos := p.Fset.Position(s.Pos())
						rel, _ := filepath.Rel(repo, pos.Filename)
						site := fmt.Sprintf("%s:%d", rel, pos.Line)
						s.X = &ast.CallExpr{
							Fun:  &ast.SelectorExpr{X: ast.NewIdent("verifrt_"), Sel: ast.NewIdent("MapOrder")},
							Args: []ast.Expr{s.X, &ast.BasicLit{Kind: token.STRING, Value: strconv.Quote(site)}},
						}
						n++
					}
				case *ast.CallExpr:
					sel, ok := s.Fun.(*ast.SelectorExpr)
					if !ok {
						return true
					}
					id, ok := sel.X.(*ast.Ident)
					if !ok {
						return true
					}
					pn, ok := p.TypesInfo.Uses[id].(*types.PkgName)
					if !ok || pn.Imported().Path() != "maps" {
						return true
					}
					repl := map[string]string{"All": "MapOrder", "Keys": "MapOrderKeys", "Values": "MapOrderValues"}[sel.Sel.Name]
					if repl == "" || len(s.Args) != 1 {
						return true
					}
					pos := p.Fset.Position(s.Pos())
					rel, _ := filepath.Rel(repo, pos.Filename)
					site := fmt.Sprintf("%s:%d", rel, pos.Line)
					s.Fun = &ast.SelectorExpr{X: ast.NewIdent("verifrt_"), Sel: ast.NewIdent(repl)}
					s.Args = append(s.Args, &ast.BasicLit{Kind: token.STRING, Value: strconv.Quote(site)})
					n++
				}
				return true
			})
			rel, _ := filepath.Rel(repo, file)
			if goStmts > 0 && isGeneratorPkg(p.PkgPath) {
				// goroutines inside a generator: their interleavings are not enumerated by the
				// map-order exploration; the harness is told and samples GOMAXPROCS instead
				report = append(report, fmt.Sprintf("GO-STATEMENTS %s: %d", rel, goStmts))
			}
			if n == 0 {
				continue
			}
			// the maps import may have become unused
			spec := &ast.ImportSpec{Name: ast.NewIdent("verifrt_"), Path: &ast.BasicLit{Kind: token.STRING, Value: strconv.Quote(modPath + "/verifrt")}}
			f.Decls = append([]ast.Decl{&ast.GenDecl{Tok: token.IMPORT, Specs: []ast.Spec{spec}}}, f.Decls...)
			stillUsesMaps := false
			ast.Inspect(f, func(nd ast.Node) bool {
				if sel, ok := nd.(*ast.SelectorExpr); ok {
					if id, ok := sel.X.(*ast.Ident); ok {
						if pn, ok := p.TypesInfo.Uses[id].(*types.PkgName); ok && pn.Imported().Path() == "maps" {
							stillUsesMaps = true
						}
					}
				}
				return true
			})
			if !stillUsesMaps {
				for _, d := range f.Decls {
					gd, ok := d.(*ast.GenDecl)
					if !ok || gd.Tok != token.IMPORT {
						continue
					}
					for _, sp := range gd.Specs {
						is := sp.(*ast.ImportSpec)
						if is.Path.Value == `"maps"` {
							is.Name = ast.NewIdent("_")
						}
					}
				}
			}
			var buf bytes.Buffer
			if err := format.Node(&buf, p.Fset, f); err != nil {
				return fmt.Errorf("print %s: %v", rel, err)
			}
			dst := filepath.Join(out, "src", rel)
			os.MkdirAll(filepath.Dir(dst), 0o755)
			if err := os.WriteFile(dst, buf.Bytes(), 0o644); err != nil {
				return err
			}
			replace[file] = dst
			report = append(report, fmt.Sprintf("%s: %d map iteration site(s)", rel, n))
		}
		return nil
	}
	for _, p := range pkgs {
		if err := visit(p); err != nil {
			return nil, err
		}
	}
	return report, nil
}

func isGeneratorPkg(path string) bool {
	for _, s := range []string{"/cmd/gombok", "/metafp", "/genfp", "/internal/generator"} {
		if strings.Contains(path, s) {
			return true
		}
	}
	return false
}
