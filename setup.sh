#!/bin/bash
# Builds the framework tools from /verif sources and warms the Go build cache. Offline.
set -u
cd "$(dirname "$0")" || exit 1
export GOFLAGS=-mod=mod GOPROXY=off GOSUMDB=off GOTOOLCHAIN=local
mkdir -p bin evidence replays
cp /repo/go.sum go.sum
go build -o bin/vinstr ./instr || exit 1
S=$(mktemp -d /var/tmp/verif-setup-XXXXXX); trap 'rm -rf "$S"' EXIT
export GOTMPDIR="$S/gotmp"; mkdir -p "$GOTMPDIR"
bin/vinstr -repo /repo -rt "$PWD/rt" -out "$S/overlay" || exit 1
for d in harness/*/; do
  n=$(basename "$d")
  if [ -f "$d/OVERLAY" ]; then
    go build -tags verifrt -overlay "$S/overlay/overlay.json" -o "$S/h" "./harness/$n" || echo "setup: warning: $n does not build" >&2
  else
    go build -o "$S/h" "./harness/$n" || echo "setup: warning: $n does not build" >&2
  fi
done
exit 0
