//go:build verifrt

package mc

import "github.com/csgura/fp/verifrt"

func init() {
	verifrt.Active = HookActive
	verifrt.Point = HookPoint
	verifrt.GoHook = HookGo
	verifrt.OnceDo = HookOnceDo
	verifrt.WgAdd = HookWgAdd
	verifrt.WgWait = HookWgWait
}

// Instrumented reports whether the binary was built with the overlay.
const Instrumented = true
