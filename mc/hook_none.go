//go:build !verifrt

package mc

// Instrumented reports whether the binary was built with the overlay.
const Instrumented = false
