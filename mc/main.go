package mc

import (
	"bufio"
	"crypto/sha1"
	"encoding/json"
	"fmt"
	"os"
	"os/exec"
	"path/filepath"
	"regexp"
	"runtime"
	"runtime/pprof"
	"sort"
	"strconv"
	"strings"
	"sync"
	"time"
)

// Registry collects the scenarios of one property check.
type Registry struct {
	Tier      string
	scenarios []*Scenario
	// Extra lets a harness add free-form coverage keys (census, uncovered, bounds).
	Extra map[string]any
	// Rule describes how cases are enumerated and what counts as non-trivial.
	Rule string
	// Assumptions listed in the evidence file.
	Assumptions []string
	// Deadline is the soft deadline of the whole run (0 = default per tier).
	Deadline time.Duration
	// Post, if set, runs in the parent after all workers finished; it may add coverage
	// keys and report additional violations (used by non-choice-tree stages).
	Post func(p *PostCtx)
}

// PostCtx is handed to Registry.Post.
type PostCtx struct {
	Tier       string
	Extra      map[string]any
	Violations []Violation
}

func (r *Registry) Add(sc *Scenario) { r.scenarios = append(r.scenarios, sc) }

// Seq registers a sequential scenario.
func (r *Registry) Seq(name string, run func(x *X)) *Scenario {
	sc := &Scenario{Name: name, Run: run}
	r.Add(sc)
	return sc
}

// Conc registers a concurrent scenario (bound < 0: all interleavings with sleep sets).
func (r *Registry) Conc(name string, bound int, run func(x *X)) *Scenario {
	sc := &Scenario{Name: name, Run: run, Concurrent: true, PreemptionBound: bound}
	r.Add(sc)
	return sc
}

func (r *Registry) Thorough() bool { return r.Tier == "thorough" }

func envOr(k, d string) string {
	if v := os.Getenv(k); v != "" {
		return v
	}
	return d
}

const exitViolation = 1
const exitInternal = 2

// Main is the entry point of every harness binary.
//
//	harness quick|thorough
//	harness --replay <file>
//	harness --worker k/N --tier t --out file [--journal file] [--poison file]
func Main(property string, register func(r *Registry)) {
	args := os.Args[1:]
	if len(args) == 0 {
		fmt.Fprintln(os.Stderr, "usage: harness quick|thorough | --replay file")
		os.Exit(exitInternal)
	}
	switch args[0] {
	case "quick", "thorough":
		os.Exit(parentMain(property, args[0], register))
	case "--replay":
		os.Exit(replayMain(property, args[1], register, true))
	case "--replay-quiet":
		os.Exit(replayMain(property, args[1], register, false))
	case "--worker":
		os.Exit(workerMain(property, args[1:], register))
	}
	fmt.Fprintln(os.Stderr, "unknown mode", args[0])
	os.Exit(exitInternal)
}

func buildRegistry(tier string, register func(r *Registry)) *Registry {
	r := &Registry{Tier: tier, Extra: map[string]any{}}
	register(r)
	// VERIF_ONLY=<regexp>: development aid (measuring single scenarios); the evidence then says so
	// and the run is not exhaustive for the property
	if re := os.Getenv("VERIF_ONLY"); re != "" {
		rx := regexp.MustCompile(re)
		var keep []*Scenario
		for _, sc := range r.scenarios {
			if rx.MatchString(sc.Name) {
				keep = append(keep, sc)
			}
		}
		r.scenarios = keep
		r.Extra["filtered_by_VERIF_ONLY"] = re
	}
	return r
}

func workerMain(property string, args []string, register func(r *Registry)) int {
	var k, n int
	fmt.Sscanf(args[0], "%d/%d", &k, &n)
	tier, out, journal, poisonFile := "quick", "", "", ""
	var deadline time.Time
	for i := 1; i < len(args)-1; i += 2 {
		switch args[i] {
		case "--tier":
			tier = args[i+1]
		case "--out":
			out = args[i+1]
		case "--journal":
			journal = args[i+1]
		case "--poison":
			poisonFile = args[i+1]
		case "--deadline":
			s, _ := strconv.ParseInt(args[i+1], 10, 64)
			deadline = time.Unix(s, 0)
		}
	}
	runtime.GOMAXPROCS(1)
	if pf := os.Getenv("VERIF_CPUPROFILE"); pf != "" && k == 0 {
		if f, err := os.Create(pf); err == nil {
			pprof.StartCPUProfile(f)
			defer pprof.StopCPUProfile()
		}
	}
	r := buildRegistry(tier, register)
	e := &explorer{tier: tier, worker: k, nworkers: n, deadline: deadline, res: &workerResult{OutcomeSet: map[string][]uint64{}, NTSet: map[string][]uint64{}}, maxViol: 40, poison: map[string]bool{}, selfTestN: 16}
	if len(r.scenarios) > 500 {
		e.selfTestN = 3
	}
	if journal != "" {
		f, err := os.OpenFile(journal, os.O_CREATE|os.O_RDWR|os.O_TRUNC, 0o644)
		if err == nil {
			e.journal = f
		}
	}
	if poisonFile != "" {
		if b, err := os.ReadFile(poisonFile); err == nil {
			for _, l := range strings.Split(string(b), "\n") {
				if l != "" {
					e.poison[l] = true
				}
			}
		}
	}
	claimDir := filepath.Dir(out)
	if len(r.scenarios) < 3*n {
		for _, sc := range r.scenarios {
			if !sc.NoShard {
				sc.Shard = true
			}
		}
	}
	// results are appended per finished scenario (JSON lines), so a later crash of this worker
	// loses nothing; a restarted worker skips what is already recorded
	doneSc := map[string]bool{}
	if b, err := os.ReadFile(out); err == nil {
		for _, l := range strings.Split(string(b), "\n") {
			var part workerResult
			if l != "" && json.Unmarshal([]byte(l), &part) == nil {
				for _, st := range part.Stats {
					doneSc[st.Name] = true
				}
			}
		}
	}
	of, err := os.OpenFile(out, os.O_CREATE|os.O_WRONLY|os.O_APPEND, 0o644)
	if err != nil {
		fmt.Fprintln(os.Stderr, "worker: cannot open result file:", err)
		return exitInternal
	}
	defer of.Close()
	emit := func(wr *workerResult) bool {
		b, _ := json.Marshal(wr)
		if _, err := of.Write(append(b, '\n')); err != nil {
			fmt.Fprintln(os.Stderr, "worker: cannot write result:", err)
			return false
		}
		return true
	}
	final := &workerResult{End: true}
	for i, sc := range r.scenarios {
		e.scIndex = i
		if !sc.Shard && n > 1 {
			// dynamic distribution: the first worker to create the claim directory owns it
			cd := filepath.Join(claimDir, fmt.Sprintf("claim-%d", i))
			mine := filepath.Join(cd, fmt.Sprintf("owner-%d", k))
			if err := os.Mkdir(cd, 0o755); err == nil {
				os.WriteFile(mine, nil, 0o644)
			} else if _, err := os.Stat(mine); err != nil {
				continue
			}
		}
		if doneSc[sc.Name] {
			continue
		}
		e.res = &workerResult{OutcomeSet: map[string][]uint64{}, NTSet: map[string][]uint64{}}
		var st *ScenarioStats
		if e.poison["SCENARIO:"+sc.Name] {
			st = &ScenarioStats{Name: sc.Name, Incomplete: "crashes", Sharded: sc.Shard, Tags: map[string]int64{}}
		} else {
			st = e.explore(sc)
		}
		e.res.Stats = append(e.res.Stats, st)
		for h := range st.Outcomes {
			e.res.OutcomeSet[sc.Name] = append(e.res.OutcomeSet[sc.Name], h)
		}
		for h := range st.NTOutcomes {
			e.res.NTSet[sc.Name] = append(e.res.NTSet[sc.Name], h)
		}
		final.Internal, final.Capped = e.res.Internal, e.res.Capped
		e.res.Internal, e.res.Capped = "", ""
		if final.Capped == "" || st.Complete {
			if !emit(e.res) {
				return exitInternal
			}
		}
		if final.Internal != "" || final.Capped != "" {
			break
		}
	}
	if !emit(final) {
		return exitInternal
	}
	return 0
}

// replayFile is the on-disk replay artefact.
type replayFile struct {
	Property string   `json:"property"`
	Scenario string   `json:"scenario"`
	Key      string   `json:"key"`
	Msg      string   `json:"message"`
	Tier     string   `json:"tier"`
	Choices  []int    `json:"choices"`
	Trace    []string `json:"decoded_trace"`
	Note     string   `json:"note,omitempty"`
}

func replayMain(property, path string, register func(r *Registry), verbose bool) int {
	b, err := os.ReadFile(path)
	if err != nil {
		fmt.Fprintln(os.Stderr, err)
		return exitInternal
	}
	var rf replayFile
	if err := json.Unmarshal(b, &rf); err != nil {
		fmt.Fprintln(os.Stderr, err)
		return exitInternal
	}
	tier := rf.Tier
	if tier == "" {
		tier = "quick"
	}
	r := buildRegistry(tier, register)
	for _, sc := range r.scenarios {
		if sc.Name == rf.Scenario {
			x := runOne(sc, tier, rf.Choices, nil, true)
			if verbose {
				for _, l := range x.trace {
					fmt.Println(l)
				}
			}
			if x.internal != nil {
				fmt.Println("INTERNAL:", x.internal.Msg)
				return exitInternal
			}
			for _, rp := range x.reports {
				fmt.Printf("REPLAY-FAILS key=%s\n%s\n", rp.Key, rp.Msg)
			}
			if x.fail == nil && len(x.reports) > 0 {
				if verbose {
					fmt.Printf("VIOLATION property=%s replay=%s\n", property, path)
				}
				return exitViolation
			}
			if x.fail != nil {
				fmt.Printf("REPLAY-FAILS key=%s\n%s\n", x.fail.Key, x.fail.Msg)
				if verbose {
					fmt.Printf("VIOLATION property=%s replay=%s\n", property, path)
				}
				return exitViolation
			}
			fmt.Println("REPLAY-PASSES")
			return 0
		}
	}
	fmt.Fprintln(os.Stderr, "scenario not found:", rf.Scenario)
	return exitInternal
}

type knownFinding struct {
	property, key, text string
}

func loadKnown(property string) []knownFinding {
	var out []knownFinding
	f, err := os.Open(filepath.Join(verifDir(), "known_findings.txt"))
	if err != nil {
		return nil
	}
	defer f.Close()
	sc := bufio.NewScanner(f)
	for sc.Scan() {
		l := strings.TrimSpace(sc.Text())
		if !strings.HasPrefix(l, "finding:") {
			continue
		}
		fs := strings.Fields(l[len("finding:"):])
		if len(fs) < 2 || fs[0] != "property="+property || !strings.HasPrefix(fs[1], "key=") {
			continue
		}
		out = append(out, knownFinding{property, fs[1][4:], strings.Join(fs[2:], " ")})
	}
	return out
}

func globMatch(pat, s string) bool {
	// '*' matches any run of characters; everything else is literal
	parts := strings.Split(pat, "*")
	if len(parts) == 1 {
		return pat == s
	}
	if !strings.HasPrefix(s, parts[0]) {
		return false
	}
	s = s[len(parts[0]):]
	for i := 1; i < len(parts)-1; i++ {
		j := strings.Index(s, parts[i])
		if j < 0 {
			return false
		}
		s = s[j+len(parts[i]):]
	}
	return strings.HasSuffix(s, parts[len(parts)-1])
}

func verifDir() string { return envOr("VERIF_DIR", "/verif") }

// outDir is where evidence/ and replays/ are written (VERIF_OUT_DIR redirects them when a
// check is pointed at a scratch copy of the repository).
func outDir() string { return envOr("VERIF_OUT_DIR", verifDir()) }

// OutDir is exported for harnesses with stages of their own.
func OutDir() string { return outDir() }

// RepoDir is the tree under test.
func RepoDir() string { return envOr("VERIF_REPO", "/repo") }

// ScratchDir is the per-run scratch directory created by vcheck (removed on exit).
func ScratchDir() string { return envOr("VERIF_SCRATCH_DIR", os.TempDir()) }

func parentMain(property, tier string, register func(r *Registry)) int {
	start := time.Now()
	seed, _ := strconv.Atoi(envOr("VERIF_SEED", "0"))
	r := buildRegistry(tier, register)
	nw := runtime.NumCPU()
	if v := os.Getenv("VERIF_WORKERS"); v != "" {
		nw, _ = strconv.Atoi(v)
	}
	if nw < 1 {
		nw = 1
	}
	soft := r.Deadline
	if soft == 0 {
		soft = 4 * time.Minute
		if tier == "thorough" {
			soft = 25 * time.Minute
		}
	}
	if v := os.Getenv("VERIF_DEADLINE_S"); v != "" {
		s, _ := strconv.Atoi(v)
		soft = time.Duration(s) * time.Second
	}
	deadline := start.Add(soft)
	scratch, err := os.MkdirTemp(envOr("VERIF_SCRATCH", "/var/tmp"), "verif-mc-")
	if err != nil {
		fmt.Fprintln(os.Stderr, err)
		return exitInternal
	}
	defer os.RemoveAll(scratch)
	self, _ := os.Executable()

	results := make([]*workerResult, nw)
	crashes := make([][]Violation, nw)
	internalMsg := make([]string, nw)
	var wg sync.WaitGroup
	for k := 0; k < nw; k++ {
		wg.Add(1)
		go func(k int) {
			defer wg.Done()
			poison := filepath.Join(scratch, fmt.Sprintf("poison%d", k))
			var poisoned []string
			out := filepath.Join(scratch, fmt.Sprintf("out%d.json", k))
			crashesPerSc := map[string]int{}
			// readParts merges the JSON lines the worker has appended so far
			readParts := func() (*workerResult, bool) {
				wr := &workerResult{OutcomeSet: map[string][]uint64{}, NTSet: map[string][]uint64{}}
				b, err := os.ReadFile(out)
				if err != nil {
					return wr, false
				}
				ended := false
				for _, l := range strings.Split(string(b), "\n") {
					var part workerResult
					if l == "" || json.Unmarshal([]byte(l), &part) != nil {
						continue
					}
					if part.End {
						ended = true
						wr.Internal, wr.Capped = part.Internal, part.Capped
						continue
					}
					wr.Stats = append(wr.Stats, part.Stats...)
					for n, hs := range part.OutcomeSet {
						wr.OutcomeSet[n] = append(wr.OutcomeSet[n], hs...)
					}
					for n, hs := range part.NTSet {
						wr.NTSet[n] = append(wr.NTSet[n], hs...)
					}
					wr.Violations = append(wr.Violations, part.Violations...)
					wr.Samples = append(wr.Samples, part.Samples...)
				}
				return wr, ended
			}
			for attempt := 0; attempt < 12; attempt++ {
				journal := filepath.Join(scratch, fmt.Sprintf("journal%d", k))
				os.WriteFile(poison, []byte(strings.Join(poisoned, "\n")), 0o644)
				cmd := exec.Command(self, "--worker", fmt.Sprintf("%d/%d", k, nw), "--tier", tier, "--out", out,
					"--journal", journal, "--poison", poison, "--deadline", strconv.FormatInt(deadline.Unix(), 10))
				cmd.Env = append(os.Environ(), "GODEBUG=gcshrinkstackoff=1")
				var stderr strings.Builder
				cmd.Stderr = &tailWriter{b: &stderr, max: 6000}
				cmd.Stdout = os.Stderr
				err := cmd.Run()
				if wr, ended := readParts(); err == nil && ended {
					results[k] = wr
					return
				}
				// the worker died: the journal names the execution that was running
				jb, _ := os.ReadFile(journal)
				line := strings.TrimSpace(strings.SplitN(string(jb), "\n", 2)[0])
				var scIdx int
				var vec []int
				ok := false
				if sp := strings.SplitN(line, " ", 2); len(sp) == 2 {
					if _, e1 := fmt.Sscanf(sp[0], "%d", &scIdx); e1 == nil {
						vs := strings.Fields(strings.Trim(sp[1], "[]"))
						ok = true
						for _, s := range vs {
							n, e2 := strconv.Atoi(s)
							if e2 != nil {
								ok = false
							}
							vec = append(vec, n)
						}
					}
				}
				if !ok || scIdx >= len(r.scenarios) {
					internalMsg[k] = fmt.Sprintf("worker %d died without a usable journal (%v): %s", k, err, stderr.String())
					return
				}
				sc := r.scenarios[scIdx]
				tail := stderr.String()
				first := tail
				if i := strings.Index(first, "\n"); i > 0 {
					first = first[:i]
				}
				crashes[k] = append(crashes[k], Violation{Scenario: sc.Name, Key: "crash", Msg: "the process died while running this execution (fatal error, e.g. stack exhaustion by unbounded recursion): " + first + "\n" + tail, Choices: vec})
				poisoned = append(poisoned, vecKey(sc.Name, vec))
				crashesPerSc[sc.Name]++
				if crashesPerSc[sc.Name] >= 2 {
					// two crashing executions in one scenario: give the scenario up, keep going with the others
					poisoned = append(poisoned, "SCENARIO:"+sc.Name)
				}
			}
			internalMsg[k] = ""
			wr, _ := readParts()
			wr.Capped = "crashes"
			results[k] = wr
		}(k)
	}
	wg.Wait()
	for _, m := range internalMsg {
		if m != "" {
			fmt.Fprintln(os.Stderr, "INTERNAL:", m)
			return exitInternal
		}
	}
	// merge
	merged := map[string]*ScenarioStats{}
	outcomes := map[string]map[uint64]bool{}
	ntOutcomes := map[string]map[uint64]bool{}
	var order []string
	for _, sc := range r.scenarios {
		merged[sc.Name] = &ScenarioStats{Name: sc.Name, Tags: map[string]int64{}, Complete: true}
		outcomes[sc.Name] = map[uint64]bool{}
		ntOutcomes[sc.Name] = map[uint64]bool{}
		order = append(order, sc.Name)
	}
	var viols []Violation
	var samples []Sample
	capped := ""
	reports := map[string]int{}
	for k, wr := range results {
		if wr == nil {
			fmt.Fprintln(os.Stderr, "INTERNAL: worker", k, "returned nothing")
			return exitInternal
		}
		if wr.Internal != "" {
			fmt.Fprintln(os.Stderr, "INTERNAL:", wr.Internal)
			return exitInternal
		}
		if wr.Capped != "" {
			capped = wr.Capped
		}
		for _, st := range wr.Stats {
			m := merged[st.Name]
			reports[st.Name]++
			m.Sharded = st.Sharded
			m.Executions += st.Executions
			m.Transitions += st.Transitions
			m.Pruned += st.Pruned
			m.NonTrivial += st.NonTrivial
			m.Violations += st.Violations
			m.XStates += st.XStates
			m.XTrans += st.XTrans
			m.Mode = st.Mode
			if st.MaxDepth > m.MaxDepth {
				m.MaxDepth = st.MaxDepth
			}
			for t, c := range st.Tags {
				m.Tags[t] += c
			}
			if !st.Complete {
				m.Complete = false
			}
			if st.Incomplete != "" {
				capped = st.Incomplete
			}
		}
		for n, hs := range wr.OutcomeSet {
			for _, h := range hs {
				outcomes[n][h] = true
			}
		}
		for n, hs := range wr.NTSet {
			for _, h := range hs {
				ntOutcomes[n][h] = true
			}
		}
		viols = append(viols, wr.Violations...)
		viols = append(viols, crashes[k]...)
		if k == seed%len(results) || len(samples) < 3 {
			samples = append(samples, wr.Samples...)
		}
	}
	for _, n := range order {
		m := merged[n]
		if reports[n] == 0 || (m.Sharded && reports[n] < len(results)) {
			m.Complete = false
		}
	}
	extra := r.Extra
	if r.Post != nil {
		pc := &PostCtx{Tier: tier, Extra: extra}
		r.Post(pc)
		viols = append(viols, pc.Violations...)
	}
	// dedup violations by scenario+key, shortest choice vector first
	sort.SliceStable(viols, func(i, j int) bool {
		if viols[i].Scenario != viols[j].Scenario {
			return viols[i].Scenario < viols[j].Scenario
		}
		if viols[i].Key != viols[j].Key {
			return viols[i].Key < viols[j].Key
		}
		return len(viols[i].Choices) < len(viols[j].Choices)
	})
	var uniq []Violation
	for i, v := range viols {
		if i > 0 && viols[i-1].Scenario == v.Scenario && viols[i-1].Key == v.Key {
			continue
		}
		uniq = append(uniq, v)
	}
	known := loadKnown(property)
	exit := 0
	var knownHit []string
	var newViol []map[string]any
	os.MkdirAll(filepath.Join(outDir(), "replays"), 0o755)
	printedKnown := map[string]bool{}
	unknownCount := 0
	for _, v := range uniq {
		full := v.Scenario + ":" + v.Key
		matched := false
		for _, kf := range known {
			if globMatch(kf.key, full) {
				matched = true
				if !printedKnown[kf.key] {
					printedKnown[kf.key] = true
					fmt.Printf("KNOWN-FINDING: property=%s %s [key=%s]\n", property, kf.text, kf.key)
					knownHit = append(knownHit, kf.key)
				}
				break
			}
		}
		if matched {
			continue
		}
		unknownCount++
		if unknownCount > 25 {
			continue
		}
		rf := replayFile{Property: property, Scenario: v.Scenario, Key: v.Key, Msg: v.Msg, Tier: tier, Choices: v.Choices, Trace: v.Trace}
		if rf.Choices == nil {
			rf.Choices = []int{}
		}
		h := sha1.Sum([]byte(full))
		path := filepath.Join(outDir(), "replays", fmt.Sprintf("%s-%x.json", property, h[:6]))
		b, _ := json.MarshalIndent(rf, "", " ")
		os.WriteFile(path, b, 0o644)
		// re-execute in fresh processes before believing it (crashes: twice, others: 5 times)
		confirm := 5
		if v.Key == "crash" {
			confirm = 2
		}
		stable := true
		if len(v.Choices) > 0 || v.Trace != nil || v.Key == "crash" {
			for i := 0; i < confirm; i++ {
				cmd := exec.Command(self, "--replay-quiet", path)
				outb, err := cmd.CombinedOutput()
				if v.Key == "crash" {
					if err == nil {
						stable = false
					}
					continue
				}
				if err == nil || !strings.Contains(string(outb), "REPLAY-FAILS key="+v.Key+"\n") {
					stable = false
					fmt.Fprintf(os.Stderr, "replay %d of %s did not fail identically:\n%s\n", i, path, outb)
				}
			}
		}
		if !stable {
			fmt.Fprintf(os.Stderr, "INTERNAL: violation %s did not reproduce in 5 fresh replays; not reported\n", full)
			return exitInternal
		}
		fmt.Printf("VIOLATION property=%s replay=%s\n", property, path)
		fmt.Printf("  scenario=%s key=%s\n  %s\n", v.Scenario, v.Key, strings.ReplaceAll(firstLines(v.Msg, 12), "\n", "\n  "))
		newViol = append(newViol, map[string]any{"scenario": v.Scenario, "key": v.Key, "message": firstLines(v.Msg, 6), "replay": path})
		exit = exitViolation
	}
	// evidence
	var tot ScenarioStats
	var scList []map[string]any
	distinct, distinctNT := 0, 0
	allComplete := true
	tags := map[string]int64{}
	for _, n := range order {
		m := merged[n]
		tot.Executions += m.Executions
		tot.Transitions += m.Transitions
		tot.Pruned += m.Pruned
		tot.NonTrivial += m.NonTrivial
		tot.Violations += m.Violations
		tot.XStates += m.XStates
		tot.XTrans += m.XTrans
		if m.MaxDepth > tot.MaxDepth {
			tot.MaxDepth = m.MaxDepth
		}
		distinct += len(outcomes[n])
		distinctNT += len(ntOutcomes[n])
		if !m.Complete {
			allComplete = false
		}
		for t, c := range m.Tags {
			tags[t] += c
		}
		scList = append(scList, map[string]any{"name": n, "mode": m.Mode, "executions": m.Executions, "transitions": m.Transitions,
			"states": m.Transitions + 1 + m.XStates, "search_states": m.XStates, "search_transitions": m.XTrans, "max_depth": m.MaxDepth, "sleep_set_pruned": m.Pruned, "distinct_outcomes": len(outcomes[n]),
			"nontrivial_executions": m.NonTrivial, "distinct_nontrivial_outcomes": len(ntOutcomes[n]), "violating_executions": m.Violations, "complete": m.Complete})
	}
	if len(samples) > 12 {
		samples = samples[:12]
	}
	var sampleOut []any
	for _, s := range samples {
		tr := s.Trace
		if len(tr) > 60 {
			tr = append(append([]string{}, tr[:60]...), fmt.Sprintf("... (%d more lines)", len(s.Trace)-60))
		}
		sampleOut = append(sampleOut, map[string]any{"scenario": s.Scenario, "choices": s.Choices, "trace": tr})
	}
	if len(sampleOut) == 0 {
		sampleOut = append(sampleOut, "no execution recorded")
	}
	cov := map[string]any{
		"states":                        tot.Transitions + int64(len(order)) + tot.XStates,
		"transitions":                   tot.Transitions + tot.XTrans,
		"executions":                    tot.Executions,
		"traces_validated_against_impl": tot.Executions,
		"evaluations":                   tot.Executions,
		"distinct_outcomes":             distinct,
		"distinct_nontrivial":           distinctNT,
		"nontrivial_executions":         tot.NonTrivial,
		"sleep_set_pruned_executions":   tot.Pruned,
		"max_depth":                     tot.MaxDepth,
		"exhaustive":                    allComplete && capped == "" && os.Getenv("VERIF_ONLY") == "",
		"rule":                          r.Rule,
		"samples":                       sampleOut,
		"scenarios":                     scList,
		"scenario_count":                len(order),
		"workers":                       nw,
		"known_findings_hit":            knownHit,
		"new_violations":                newViol,
		"census":                        tags,
	}
	if capped != "" {
		cov["capped_by"] = capped
	}
	for k, v := range extra {
		cov[k] = v
	}
	ev := map[string]any{
		"property_id": property,
		"tier":        tier,
		"seed":        seed,
		"level":       "model_checking",
		"coverage":    cov,
		"assumptions": r.Assumptions,
		"wall_s":      time.Since(start).Seconds(),
		"violations":  unknownCount,
	}
	if r.Assumptions == nil {
		ev["assumptions"] = []string{}
	}
	evDir := filepath.Join(outDir(), "evidence")
	os.MkdirAll(evDir, 0o755)
	b, _ := json.MarshalIndent(ev, "", " ")
	if err := os.WriteFile(filepath.Join(evDir, property+".json"), b, 0o644); err != nil {
		fmt.Fprintln(os.Stderr, "INTERNAL: cannot write evidence:", err)
		return exitInternal
	}
	fmt.Printf("%s %s: scenarios=%d executions=%d states=%d transitions=%d distinct_outcomes=%d nontrivial=%d violations(new)=%d known=%d exhaustive=%v wall=%.1fs\n",
		property, tier, len(order), tot.Executions, tot.Transitions+int64(len(order))+tot.XStates, tot.Transitions+tot.XTrans, distinct, distinctNT, unknownCount, len(knownHit), allComplete && capped == "", time.Since(start).Seconds())
	return exit
}

func firstLines(s string, n int) string {
	ls := strings.Split(s, "\n")
	if len(ls) > n {
		ls = ls[:n]
	}
	return strings.Join(ls, "\n")
}

type tailWriter struct {
	b   *strings.Builder
	max int
}

func (w *tailWriter) Write(p []byte) (int, error) {
	if w.b.Len() < w.max {
		w.b.Write(p)
	}
	return len(p), nil
}
