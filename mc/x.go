// Package mc is a small stateless model checker for Go code: it runs a closed driver
// ("scenario") many times and enumerates every resolution of the nondeterminism the
// driver exposes through X.Choose (inputs, operations, environment answers) and through
// the cooperative scheduler (thread interleavings at hooked synchronisation operations).
package mc

import (
	"fmt"
	"hash/fnv"
	"runtime"
	"strings"
	"time"
)

// Scenario is one closed driver. Run is executed once per execution of the choice tree.
type Scenario struct {
	Name string
	Run  func(x *X)
	// SplitDepth is the depth at which subtrees are dealt to worker processes (default 2).
	SplitDepth int
	// Shard deals the subtrees at SplitDepth to all worker processes; otherwise the whole
	// scenario is explored by the one worker that claims it (set automatically when a
	// harness has few scenarios).
	Shard bool
	// NoShard keeps the whole scenario on one worker even when a harness has few scenarios
	// (for scenarios that do all their work inside a single execution).
	NoShard bool
	// Concurrent runs Run as thread 0 of the cooperative scheduler.
	Concurrent bool
	// PreemptionBound < 0 means unbounded interleavings with sleep-set reduction;
	// >= 0 explores every schedule with at most that many preemptions (no reduction).
	PreemptionBound int
	// ReadsCommute lets the sleep-set reduction treat two atomic loads of the same cell as
	// independent (default: any two operations on one cell are dependent).
	ReadsCommute bool
	// SilentLoads makes atomic loads no scheduling points of their own (the load executes
	// together with the thread's previous step). Sound for code whose loads are either
	// validated by a following compare-and-swap or read a value that never changes again.
	SilentLoads bool
	// TickLimit bounds X.Tick calls per execution (0 = default 100000).
	TickLimit int
	// StepLimit bounds scheduling points per execution (0 = default 20000).
	StepLimit int
	// NoPanicViolation: a panic escaping Run is reported through Fail("panic") unless the
	// driver handles it; set to true to make an escaping panic an internal error instead.
	PanicIsInternal bool
}

// Violation is an oracle failure in one execution.
type Violation struct {
	Scenario string   `json:"scenario"`
	Key      string   `json:"key"`
	Msg      string   `json:"msg"`
	Choices  []int    `json:"choices"`
	Trace    []string `json:"trace,omitempty"`
}

// InternalError is a failure of the harness/explorer itself (never reported as VIOLATION).
type InternalError struct{ Msg string }

func (e InternalError) Error() string { return "internal error: " + e.Msg }

// X is the handle a driver uses during one execution.
type X struct {
	sc       *Scenario
	Tier     string
	prefix   []int
	expAr    []int
	choices  []int
	arity    []int
	rec      bool
	trace    []string
	obs      uint64
	nontriv  bool
	tags     []string
	counts   map[string]int64
	reports  []Violation
	xStates  int64
	incompl  string
	deadline time.Time
	xTrans   int64
	fail     *Violation
	ticks    int
	s        *sched
	pruned   bool
	internal *InternalError
}

func newX(sc *Scenario, tier string, prefix, expAr []int, rec bool) *X {
	return &X{sc: sc, Tier: tier, prefix: prefix, expAr: expAr, rec: rec, obs: 1469598103934665603}
}

// Thorough reports whether the thorough tier is running.
func (x *X) Thorough() bool { return x.Tier == "thorough" }

// Recording reports whether a decoded trace is being kept (samples, replays).
func (x *X) Recording() bool { return x.rec }

// Choose returns a value in [0,n); every value is explored.
func (x *X) Choose(n int, label string) int {
	return x.choose(n, label)
}

func (x *X) choose(n int, label string) int {
	if n <= 0 {
		x.internalf("Choose(%d,%q): no alternatives", n, label)
	}
	i := len(x.choices)
	c := 0
	if i < len(x.prefix) {
		c = x.prefix[i]
		if c >= n {
			x.internalf("replay divergence at choice %d (%s): replayed %d but only %d alternatives", i, label, c, n)
		}
		if i < len(x.expAr) && x.expAr[i] != n {
			x.internalf("replay divergence at choice %d (%s): %d alternatives, previously %d", i, label, n, x.expAr[i])
		}
	}
	x.choices = append(x.choices, c)
	x.arity = append(x.arity, n)
	if x.rec {
		x.trace = append(x.trace, fmt.Sprintf("choose %s = %d of %d", label, c, n))
	}
	return c
}

// Pick chooses one of vals and records its printed form in the trace.
func Pick[T any](x *X, label string, vals []T) T {
	i := x.choose(len(vals), label)
	if x.rec {
		x.trace[len(x.trace)-1] = fmt.Sprintf("choose %s = %v (#%d of %d)", label, vals[i], i, len(vals))
	}
	return vals[i]
}

// Bool chooses false, then true.
func (x *X) Bool(label string) bool { return x.choose(2, label) == 1 }

// Logf adds a line to the decoded trace (formatted only when recording).
func (x *X) Logf(format string, args ...any) {
	if x.rec {
		x.trace = append(x.trace, fmt.Sprintf(format, args...))
	}
}

// Observe folds values into the execution's outcome hash.
func (x *X) Observe(vals ...any) {
	h := fnv.New64a()
	fmt.Fprint(h, vals...)
	x.obs = (x.obs ^ h.Sum64()) * 1099511628211
	if x.rec {
		x.trace = append(x.trace, "observe "+strings.TrimSpace(fmt.Sprintln(vals...)))
	}
}

// ObserveInt is a cheap Observe.
func (x *X) ObserveInt(v int) {
	x.obs = (x.obs ^ uint64(v)) * 1099511628211
	if x.rec {
		x.trace = append(x.trace, fmt.Sprintf("observe %d", v))
	}
}

// NonTrivial marks this execution as non-trivial by the driver's stated rule.
func (x *X) NonTrivial() { x.nontriv = true }

// Tag counts this execution under a named census bucket (vacuity reporting).
func (x *X) Tag(t string) { x.tags = append(x.tags, t) }

// Count adds n to a named census counter.
func (x *X) Count(name string, n int64) {
	if x.counts == nil {
		x.counts = map[string]int64{}
	}
	x.counts[name] += n
}

// AddStates / AddTransitions let a driver that runs an explicit-state search inside one
// execution account for the states and transitions it visited.
func (x *X) AddStates(n int64)      { x.xStates += n }
func (x *X) AddTransitions(n int64) { x.xTrans += n }

// HasReport reports whether key was already reported in this execution.
func (x *X) HasReport(key string) bool {
	for _, r := range x.reports {
		if r.Key == key {
			return true
		}
	}
	return false
}

// ReportCount is the number of distinct keys reported so far in this execution.
func (x *X) ReportCount() int { return len(x.reports) }

// DeadlineExceeded reports whether the run's soft deadline has passed (long-running
// single executions poll it and stop with Incomplete).
func (x *X) DeadlineExceeded() bool {
	return !x.deadline.IsZero() && time.Now().After(x.deadline)
}

// Incomplete marks the exploration as not exhaustive (a cap inside the driver was hit).
func (x *X) Incomplete(reason string) { x.incompl = reason }

// Report records a violation and lets the execution continue (a driver that explores many
// states in one execution can report several distinct keys).
func (x *X) Report(key, format string, args ...any) {
	for _, r := range x.reports {
		if r.Key == key {
			return
		}
	}
	if len(x.reports) < 200 {
		x.reports = append(x.reports, Violation{Scenario: x.sc.Name, Key: key, Msg: fmt.Sprintf(format, args...)})
	}
}

// Fail records an oracle violation with a canonical key naming the failing case and aborts
// the execution.
func (x *X) Fail(key, format string, args ...any) {
	x.Failed(key, format, args...)
	runtime.Goexit()
}

// Failed records a violation without aborting (first one wins).
func (x *X) Failed(key, format string, args ...any) {
	if x.fail == nil {
		x.fail = &Violation{Scenario: x.sc.Name, Key: key, Msg: fmt.Sprintf(format, args...)}
	}
	if x.s != nil {
		x.s.aborted = true
	}
}

// HasFailed reports whether a violation was recorded in this execution.
func (x *X) HasFailed() bool { return x.fail != nil }

// Tick counts one user-callback invocation / source pull; exceeding the scenario's
// TickLimit is reported as non-termination.
func (x *X) Tick() {
	x.ticks++
	lim := x.sc.TickLimit
	if lim == 0 {
		lim = 100000
	}
	if x.ticks > lim {
		x.Fail("nonterm", "does not terminate: more than %d callback invocations/pulls in one execution", lim)
	}
}

// Ticks returns the number of Tick calls so far.
func (x *X) Ticks() int { return x.ticks }

func (x *X) internalf(format string, args ...any) {
	e := InternalError{fmt.Sprintf(format, args...)}
	if x.internal == nil {
		x.internal = &e
	}
	panic(e)
}

// Catch runs f and returns the recovered panic value (nil if none). Fail and scheduler
// aborts end the goroutine with runtime.Goexit and therefore pass through any recover;
// internal errors are re-panicked.
func Catch(f func()) (p any) {
	defer func() {
		if r := recover(); r != nil {
			if _, ok := r.(InternalError); ok {
				panic(r)
			}
			p = r
		}
	}()
	f()
	return nil
}
