package mc

import (
	"fmt"
	"hash/fnv"
	"os"
	"runtime/debug"
	"time"
)

// ScenarioStats are the per-scenario counters of one worker (merged by the parent).
type ScenarioStats struct {
	Name        string           `json:"name"`
	Executions  int64            `json:"executions"`
	Transitions int64            `json:"transitions"`
	MaxDepth    int              `json:"max_depth"`
	Pruned      int64            `json:"sleep_set_pruned,omitempty"`
	NonTrivial  int64            `json:"nontrivial_executions"`
	Outcomes    map[uint64]int   `json:"-"`
	NTOutcomes  map[uint64]int   `json:"-"`
	Tags        map[string]int64 `json:"tags,omitempty"`
	Violations  int64            `json:"violations"`
	Complete    bool             `json:"complete"`
	Mode        string           `json:"mode,omitempty"`
	Sharded     bool             `json:"sharded"`
	XStates     int64            `json:"x_states"`
	XTrans      int64            `json:"x_transitions"`
	Incomplete  string           `json:"incomplete,omitempty"`
}

type workerResult struct {
	Stats      []*ScenarioStats    `json:"stats"`
	OutcomeSet map[string][]uint64 `json:"outcomes"`
	NTSet      map[string][]uint64 `json:"nt_outcomes"`
	Violations []Violation         `json:"violations"`
	Samples    []Sample            `json:"samples"`
	Internal   string              `json:"internal,omitempty"`
	Capped     string              `json:"capped,omitempty"`
	End        bool                `json:"end,omitempty"`
}

// Sample is a decoded execution kept for the evidence file.
type Sample struct {
	Scenario string   `json:"scenario"`
	Choices  []int    `json:"choices"`
	Trace    []string `json:"trace"`
}

type execResult struct {
	choices []int
	arity   []int
	x       *X
}

// runOne executes one execution of sc with the given prefix on a fresh goroutine.
var runDeadline time.Time

func runOne(sc *Scenario, tier string, prefix, expAr []int, rec bool) *X {
	x := newX(sc, tier, prefix, expAr, rec)
	x.deadline = runDeadline
	done := make(chan struct{})
	body := func() {
		completed := false
		defer func() {
			if !completed {
				if r := recover(); r != nil {
					if ie, ok := r.(InternalError); ok {
						if x.internal == nil {
							x.internal = &ie
						}
					} else if sc.PanicIsInternal {
						if x.internal == nil {
							x.internal = &InternalError{fmt.Sprintf("panic in driver: %v\n%s", r, shortStack())}
						}
					} else {
						x.Failed("panic", "panic escaped the driver: %v\n%s", r, shortStack())
					}
				}
			}
		}()
		sc.Run(x)
		completed = true
	}
	if sc.Concurrent {
		s := newSched(x)
		x.s = s
		active = s
		s.spawn("main", body)
		go func() {
			defer close(done)
			s.run()
		}()
		<-done
		active = nil
	} else {
		go func() {
			defer close(done)
			body()
		}()
		<-done
	}
	return x
}

func shardOf(choices []int, d int) uint32 {
	h := fnv.New32a()
	var b [4]byte
	for i := 0; i < d; i++ {
		c := -1
		if i < len(choices) {
			c = choices[i]
		}
		b[0], b[1], b[2], b[3] = byte(c), byte(c>>8), byte(c>>16), byte(c>>24)
		h.Write(b[:])
	}
	// finalise (murmur3 fmix32): the low bits of FNV-1a over small values are badly distributed, and
	// the shard is the hash modulo the number of workers (measured: 4 of 16 workers got nearly all of a
	// scenario's executions before this mix was added)
	x := h.Sum32()
	x ^= x >> 16
	x *= 0x85ebca6b
	x ^= x >> 13
	x *= 0xc2b2ae35
	x ^= x >> 16
	return x
}

type explorer struct {
	tier      string
	worker    int
	nworkers  int
	deadline  time.Time
	journal   *os.File
	poison    map[string]bool
	res       *workerResult
	maxViol   int
	scIndex   int
	selfTestN int
}

func vecKey(sc string, v []int) string { return sc + ":" + fmt.Sprint(v) }

func (e *explorer) explore(sc *Scenario) *ScenarioStats {
	st := &ScenarioStats{Name: sc.Name, Outcomes: map[uint64]int{}, NTOutcomes: map[uint64]int{}, Tags: map[string]int64{}}
	if sc.Concurrent {
		if sc.PreemptionBound < 0 {
			st.Mode = "all interleavings, sleep-set reduction"
		} else {
			st.Mode = fmt.Sprintf("preemption bound %d, no reduction", sc.PreemptionBound)
		}
	} else {
		st.Mode = "sequential choice tree"
	}
	runDeadline = e.deadline
	d := sc.SplitDepth
	if d == 0 {
		d = 2
	}
	me := uint32(e.worker)
	n := uint32(e.nworkers)
	if !sc.Shard {
		n = 1
	}
	st.Sharded = sc.Shard
	var cur, ar []int
	keys := map[string]bool{}
	owned := int64(0)
	selfTest := 0
	for {
		if !e.deadline.IsZero() && owned%64 == 0 && time.Now().After(e.deadline) {
			e.res.Capped = "deadline"
			return st
		}
		var choices, arity []int
		skip := len(cur) >= d && n > 1 && shardOf(cur, d)%n != me
		if !skip && e.poison[vecKey(sc.Name, cur)] {
			skip = true
		}
		if skip {
			choices, arity = cur, ar[:len(cur)]
		} else {
			if e.journal != nil {
				line := fmt.Sprintf("%d %v\n", e.scIndex, cur)
				e.journal.WriteAt([]byte(fmt.Sprintf("%-4000s", line))[:4000], 0)
			}
			x := runOne(sc, e.tier, cur, ar, false)
			if x.internal != nil {
				e.res.Internal = fmt.Sprintf("scenario %s choices %v: %s", sc.Name, x.choices, x.internal.Msg)
				return st
			}
			choices, arity = x.choices, x.arity
			mine := n <= 1 || shardOf(choices, d)%n == me
			if mine {
				owned++
				if selfTest < e.selfTestN {
					selfTest++
					y := runOne(sc, e.tier, choices, arity, false)
					if y.internal != nil || y.obs != x.obs || fmt.Sprint(y.choices) != fmt.Sprint(x.choices) || (y.fail == nil) != (x.fail == nil) {
						e.res.Internal = fmt.Sprintf("nondeterministic replay in scenario %s choices %v: obs %x vs %x, choices %v, internal %v", sc.Name, x.choices, x.obs, y.obs, y.choices, y.internal)
						return st
					}
				}
				if x.pruned {
					st.Pruned++
				} else {
					st.Executions++
					st.Transitions += int64(len(choices) - len(cur))
					if len(cur) > 0 {
						st.Transitions++
					}
					if len(choices) > st.MaxDepth {
						st.MaxDepth = len(choices)
					}
					if len(st.Outcomes) < 1<<16 {
						st.Outcomes[x.obs]++
					}
					if x.nontriv {
						st.NonTrivial++
						if len(st.NTOutcomes) < 1<<16 {
							st.NTOutcomes[x.obs]++
						}
					}
					for _, t := range x.tags {
						st.Tags[t]++
					}
					for t, c := range x.counts {
						st.Tags[t] += c
					}
					if x.incompl != "" {
						st.Incomplete = x.incompl
					}
					st.XStates += x.xStates
					st.XTrans += x.xTrans
					for _, rp := range x.reports {
						st.Violations++
						if !keys[rp.Key] && len(keys) < e.maxViol {
							keys[rp.Key] = true
							rp.Choices = append([]int(nil), choices...)
							e.res.Violations = append(e.res.Violations, rp)
						}
					}
					if x.fail != nil {
						st.Violations++
						if !keys[x.fail.Key] && len(keys) < e.maxViol {
							keys[x.fail.Key] = true
							v := *x.fail
							v.Choices = append([]int(nil), choices...)
							z := runOne(sc, e.tier, choices, arity, true)
							v.Trace = z.trace
							e.res.Violations = append(e.res.Violations, v)
						}
					}
					if (owned == 1 || owned == 50 || owned == 5000) && len(e.res.Samples) < 8 {
						z := runOne(sc, e.tier, choices, arity, true)
						e.res.Samples = append(e.res.Samples, Sample{sc.Name, append([]int(nil), choices...), z.trace})
					}
				}
			}
		}
		i := len(choices) - 1
		for i >= 0 && choices[i]+1 >= arity[i] {
			i--
		}
		if i < 0 {
			break
		}
		cur = append(append([]int(nil), choices[:i]...), choices[i]+1)
		ar = append([]int(nil), arity[:i+1]...)
	}
	st.Complete = st.Incomplete == ""
	return st
}

func init() {
	debug.SetMaxStack(64 << 20)
}
