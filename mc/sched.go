package mc

import (
	"fmt"
	"runtime"
	"sync"
)

// Operation kinds announced at scheduling points.
const (
	KStart      = iota // first step of a thread
	KAtomic            // sync/atomic operation on a cell
	KLock              // Mutex.Lock (blocking)
	KUnlock            // Mutex.Unlock
	KOnce              // Once.Do entry (blocks while another caller runs the function)
	KOnceExit          // Once.Do function finished
	KUser              // scheduling point placed by a driver callback
	KAwait             // AwaitQuiescence
	KWgWait            // WaitGroup.Wait
	KWgAdd             // WaitGroup.Add/Done
	KAtomicLoad        // sync/atomic load (a read of the cell)
)

var kindNames = []string{"start", "atomic", "lock", "unlock", "once", "once-exit", "user", "await", "wg-wait", "wg-add", "atomic-load"}

type op struct {
	cell uintptr
	kind int
	note string
}

type thread struct {
	id       int
	name     string
	resume   chan bool
	op       op
	finished bool
	fn       func()
}

type sched struct {
	x           *X
	threads     []*thread
	cur         *thread
	yield       chan struct{}
	held        map[uintptr]int
	onceRunning map[uintptr]bool
	onceDone    map[uintptr]bool
	wg          map[uintptr]int
	sleep       uint64
	quiet       int
	enBuf       []*thread
	candBuf     []*thread
	bound       int
	preempt     int
	steps       int
	aborted     bool
	cells       map[uintptr]int
	deadlock    bool
	interacted  bool
}

func newSched(x *X) *sched {
	s := &sched{x: x, yield: make(chan struct{}), bound: x.sc.PreemptionBound}
	if x.rec {
		s.cells = map[uintptr]int{}
	}
	return s
}

func (s *sched) cellName(c uintptr) string {
	if c == 0 {
		return "-"
	}
	if s.cells == nil {
		s.cells = map[uintptr]int{}
	}
	n, ok := s.cells[c]
	if !ok {
		n = len(s.cells) + 1
		s.cells[c] = n
	}
	return fmt.Sprintf("c%d", n)
}

func (s *sched) spawn(name string, fn func()) *thread {
	if len(s.threads) >= 63 {
		s.x.internalf("more than 63 threads in one execution")
	}
	t := &thread{id: len(s.threads), name: name, resume: make(chan bool), fn: fn}
	t.op = op{cell: 0, kind: KStart}
	s.threads = append(s.threads, t)
	body := func() {
		if abort := <-t.resume; abort {
			t.finished = true
			s.yield <- struct{}{}
			return
		}
		completed := false
		defer func() {
			if !completed {
				if r := recover(); r != nil {
					if ie, ok := r.(InternalError); ok {
						if s.x.internal == nil {
							s.x.internal = &ie
						}
					} else if !s.x.sc.PanicIsInternal {
						s.x.Failed("panic", "panic in thread %s: %v\n%s", t.name, r, shortStack())
					} else if s.x.internal == nil {
						s.x.internal = &InternalError{fmt.Sprintf("panic in thread %s: %v\n%s", t.name, r, shortStack())}
					}
					s.aborted = true
				}
			}
			t.finished = true
			s.yield <- struct{}{}
		}()
		fn()
		completed = true
	}
	runPooled(body)
	return t
}

// Thread goroutines are pooled across executions: their stacks have already grown to what the
// library's call chains need, which saves the repeated stack copying that dominated the
// profile. A job that ends through runtime.Goexit (abort) or a panic takes its goroutine with
// it; the pool simply starts a new one next time.
var idleWorkers []chan func()

var poolMu sync.Mutex

func runPooled(job func()) {
	poolMu.Lock()
	if n := len(idleWorkers); n > 0 {
		w := idleWorkers[n-1]
		idleWorkers = idleWorkers[:n-1]
		poolMu.Unlock()
		w <- job
		return
	}
	poolMu.Unlock()
	w := make(chan func(), 1)
	w <- job
	go func() {
		for j := range w {
			j()
			// only reached when the job returned normally; runs on the job's own goroutine while
			// the controller owns the scheduler, so the append below is ordered by the yield
			// handshake that preceded it? No: the job has already yielded; guard with the lock.
			poolMu.Lock()
			idleWorkers = append(idleWorkers, w)
			poolMu.Unlock()
		}
	}()
}

func (s *sched) enabled(t *thread) bool {
	if t.finished {
		return false
	}
	switch t.op.kind {
	case KLock:
		_, h := s.held[t.op.cell]
		return !h
	case KOnce:
		return !s.onceRunning[t.op.cell]
	case KWgWait:
		return s.wg[t.op.cell] <= 0
	case KAwait:
		for _, u := range s.threads {
			if u != t && !u.finished && u.op.kind != KAwait && s.enabled(u) {
				return false
			}
		}
		// among several awaiting threads only the lowest id proceeds first
		for _, u := range s.threads {
			if u != t && !u.finished && u.op.kind == KAwait && u.id < t.id {
				return false
			}
		}
		return true
	}
	return true
}

func (s *sched) independent(a, b op) bool {
	if a.kind == KAwait || b.kind == KAwait {
		return false
	}
	if a.kind == KStart || b.kind == KStart {
		return true
	}
	if a.cell != b.cell {
		return true
	}
	// two loads of one cell commute only if the scenario says that the plain-memory work a
	// thread does between a load and its next atomic step does not depend on their order
	return s.x.sc.ReadsCommute && a.kind == KAtomicLoad && b.kind == KAtomicLoad
}

// run drives all threads to completion (or abort). Called on the controller goroutine.
func (s *sched) run() {
	x := s.x
	stepLimit := x.sc.StepLimit
	if stepLimit == 0 {
		stepLimit = 20000
	}
	for {
		if s.aborted {
			break
		}
		en := s.enBuf[:0]
		unfinished := 0
		for _, t := range s.threads {
			if !t.finished {
				unfinished++
				if s.enabled(t) {
					en = append(en, t)
				}
			}
		}
		if unfinished == 0 {
			break
		}
		if len(en) == 0 {
			s.deadlock = true
			desc := ""
			for _, t := range s.threads {
				if !t.finished {
					desc += fmt.Sprintf(" %s@%s(%s)", t.name, kindNames[t.op.kind], s.cellName(t.op.cell))
				}
			}
			x.Failed("deadlock", "deadlock: no enabled thread, blocked:%s", desc)
			break
		}
		s.enBuf = en
		cand := s.candBuf[:0]
		curEnabled := false
		if s.cur != nil && !s.cur.finished && s.enabled(s.cur) {
			curEnabled = true
		}
		if s.bound < 0 {
			for _, t := range en {
				if s.sleep&(1<<uint(t.id)) == 0 {
					cand = append(cand, t)
				}
			}
			s.candBuf = cand
			if len(cand) == 0 {
				x.pruned = true
				s.aborted = true
				break
			}
		} else {
			cand = append(cand, en...)
			if curEnabled && s.preempt >= s.bound {
				cand = append(cand[:0], s.cur)
			}
			s.candBuf = cand
		}
		// canonical order: running thread first, then ascending ids
		if curEnabled {
			for i, t := range cand {
				if t == s.cur && i > 0 {
					copy(cand[1:i+1], cand[:i])
					cand[0] = s.cur
					break
				}
			}
		}
		c := 0
		if len(cand) > 1 {
			c = x.choose(len(cand), "sched")
			if x.rec {
				names := ""
				for _, t := range cand {
					names += " " + t.name
				}
				x.trace[len(x.trace)-1] = fmt.Sprintf("sched: run %s (of%s)", cand[c].name, names)
			}
		}
		t := cand[c]
		if s.bound >= 0 && curEnabled && t != s.cur {
			s.preempt++
		}
		if s.bound < 0 {
			var ns uint64
			if s.sleep != 0 {
				for _, u := range s.threads {
					if s.sleep&(1<<uint(u.id)) != 0 && !u.finished && s.independent(u.op, t.op) {
						ns |= 1 << uint(u.id)
					}
				}
			}
			for _, u := range cand[:c] {
				if s.independent(u.op, t.op) {
					ns |= 1 << uint(u.id)
				}
			}
			s.sleep = ns
		}
		if s.cur != nil && s.cur != t && t.op.kind != KStart && t.op.kind != KAwait {
			s.interacted = true
		}
		switch t.op.kind {
		case KLock:
			if s.held == nil {
				s.held = map[uintptr]int{}
			}
			s.held[t.op.cell] = t.id
		case KUnlock:
			delete(s.held, t.op.cell)
		case KOnce:
			if !s.onceDone[t.op.cell] {
				if s.onceRunning == nil {
					s.onceRunning = map[uintptr]bool{}
				}
				s.onceRunning[t.op.cell] = true
			}
		}
		if x.rec {
			x.trace = append(x.trace, fmt.Sprintf("  step %s: %s %s %s", t.name, kindNames[t.op.kind], s.cellName(t.op.cell), t.op.note))
		}
		s.steps++
		if s.steps > stepLimit {
			x.Failed("livelock", "livelock: more than %d scheduling points in one execution", stepLimit)
			break
		}
		s.cur = t
		t.resume <- false
		<-s.yield
	}
	// abort whatever is left
	for _, t := range s.threads {
		for !t.finished {
			s.cur = t
			t.resume <- true
			<-s.yield
		}
	}
}

// point parks the calling (current) thread before operation o.
func (s *sched) point(o op) {
	if s.quiet > 0 {
		return
	}
	t := s.cur
	t.op = o
	s.yield <- struct{}{}
	if abort := <-t.resume; abort {
		// runs deferred functions; cannot be swallowed by a recover in library code
		s.aborted = true
		runtime.Goexit()
	}
}

// ---- driver API ----

// Go starts a thread of the scenario (only in Concurrent scenarios).
func (x *X) Go(name string, fn func()) {
	if x.s == nil {
		x.internalf("X.Go outside a Concurrent scenario")
	}
	x.s.spawn(name, fn)
}

// Point is a scheduling point placed by the driver (for instance inside a user callback
// that runs in a critical region). Outside a Concurrent scenario it does nothing.
func (x *X) Point(cell any, note string) {
	if x.s == nil {
		return
	}
	x.s.point(op{cell: cellOf(cell), kind: KUser, note: note})
}

// NoPoints runs f with scheduling points suppressed: the hooked operations inside f execute
// atomically with the calling thread's current step (used for read-only oracle probes).
func (x *X) NoPoints(f func()) {
	if x.s == nil {
		f()
		return
	}
	x.s.quiet++
	defer func() { x.s.quiet-- }()
	f()
}

// AwaitQuiescence blocks the caller until no other thread is enabled; it returns the names
// of the threads that are still unfinished (blocked) at that moment.
func (x *X) AwaitQuiescence() []string {
	if x.s == nil {
		return nil
	}
	me := x.s.cur
	x.s.point(op{kind: KAwait})
	var blocked []string
	for _, t := range x.s.threads {
		if !t.finished && t != me {
			blocked = append(blocked, fmt.Sprintf("%s@%s", t.name, kindNames[t.op.kind]))
		}
	}
	return blocked
}

// Interacted reports whether a context switch between threads that had both made progress
// happened in this execution.
func (x *X) Interacted() bool { return x.s != nil && x.s.interacted }

// ThreadName returns the name of the running thread.
func (x *X) ThreadName() string {
	if x.s == nil || x.s.cur == nil {
		return "main"
	}
	return x.s.cur.name
}

func cellOf(v any) uintptr {
	switch c := v.(type) {
	case nil:
		return 1
	case uintptr:
		return c
	case int:
		return uintptr(c) + 2
	case string:
		h := uintptr(14695981039346656037 & (1<<63 - 1))
		for i := 0; i < len(c); i++ {
			h = (h ^ uintptr(c[i])) * 1099511628211
		}
		return h | 1
	}
	panic(InternalError{fmt.Sprintf("cellOf: unsupported cell %T", v)})
}

// ---- runtime hooks (called by the verifrt shims through the adapter) ----

// Hooks is what the instrumented library calls. Active is false outside an execution.
type Hooks struct{}

var active *sched

// HookActive reports whether a scheduler owns the current execution.
func HookActive() bool { return active != nil }

func HookPoint(cell uintptr, kind int, note string) {
	if s := active; s != nil {
		if kind == KAtomicLoad && s.x.sc.SilentLoads {
			return
		}
		s.point(op{cell: cell, kind: kind, note: note})
	}
}

func HookGo(fn func()) bool {
	s := active
	if s == nil {
		return false
	}
	name := "task"
	if s.x.rec {
		name = fmt.Sprintf("task%d", len(s.threads))
	}
	s.spawn(name, fn)
	return true
}

// HookOnceDo implements sync.Once.Do under the scheduler.
func HookOnceDo(cell uintptr, f func()) bool {
	s := active
	if s == nil {
		return false
	}
	s.point(op{cell: cell, kind: KOnce})
	if s.onceDone[cell] {
		return true
	}
	// scheduler set onceRunning when it granted the entry
	defer func() {
		if s.onceDone == nil {
			s.onceDone = map[uintptr]bool{}
		}
		if s.onceRunning == nil {
			s.onceRunning = map[uintptr]bool{}
		}
		s.onceDone[cell] = true
		s.onceRunning[cell] = false
	}()
	func() {
		defer func() {
			// the exit is a visible operation on the same cell; on abort Goexit passes through
			if !s.aborted {
				s.point(op{cell: cell, kind: KOnceExit})
			}
		}()
		f()
	}()
	return true
}

func HookWgAdd(cell uintptr, d int) bool {
	s := active
	if s == nil {
		return false
	}
	s.point(op{cell: cell, kind: KWgAdd})
	if s.wg == nil {
		s.wg = map[uintptr]int{}
	}
	s.wg[cell] += d
	return true
}

func HookWgWait(cell uintptr) bool {
	s := active
	if s == nil {
		return false
	}
	s.point(op{cell: cell, kind: KWgWait})
	return true
}

func shortStack() string {
	buf := make([]byte, 4096)
	n := runtime.Stack(buf, false)
	return string(buf[:n])
}
