// Package hamt is the explicit-state search over real fp.Map / fp.Set values shared by the
// C03 (reference-model agreement) and C04 (persistence) checks.
//
// A state is a live value reached by a history of real operations; transitions call the real
// Updated/Removed/UpdatedWith/Concat/Incl/Excl...; the dedup key is a canonical structural dump
// of the value obtained by read-only reflection (node kinds, bitmaps, entries in storage
// order) together with the reference content. All operations are deterministic functions of
// the structure and the hasher, so two values with identical dumps have identical futures; the
// search runs to closure (no depth bound) over a small active key set on top of a fixed ballast.
package hamt

import (
	"fmt"
	"reflect"
	"sort"
	"strings"

	"github.com/csgura/fp"
	"github.com/csgura/fp/immutable"
	"verif/mc"
)

// Hasher is a lawful Hashable[int]: Eqv is ==, Hash a pure function.
type Hasher struct {
	Name string
	F    func(int) uint32
}

func (h Hasher) Eqv(a, b int) bool { return a == b }
func (h Hasher) Hash(a int) uint32 { return h.F(a) }

var _ fp.Hashable[int] = Hasher{}

// Hashers is the table of hash functions (all lawful by construction).
var Hashers = []Hasher{
	{"identity", func(k int) uint32 { return uint32(k) }},
	{"constant", func(k int) uint32 { return 7 }},
	{"one-bit", func(k int) uint32 { return uint32(k & 1) }},
	{"level2", func(k int) uint32 { return uint32(k)<<5 | 3 }},          // all keys share the low 5 bits
	{"high-bits", func(k int) uint32 { return uint32(k) << 27 }},        // only bits 27..31 differ (k mod 32)
	{"pairs-collide", func(k int) uint32 { return uint32(k / 2) }},      // full 32-bit collisions in pairs
	{"triples-collide", func(k int) uint32 { return uint32(k/3) * 33 }}, // triples collide, spread over two levels
	{"pairs-shared-path", func(k int) uint32 { return uint32(k/2) << 5 }}, // pairs collide; all keys share the root fragment
	// keys 0 and 32 collide on all 32 bits; keys 1 and 2 have other hashes that share the first
	// 5-bit fragment with them, so they are merged beside the collision leaf one level down
	{"beside-collision", func(k int) uint32 {
		switch k {
		case 0, 32:
			return 7
		case 1:
			return 7 + 32
		case 2:
			return 7 + 64
		}
		return uint32(k) * 2654435761
	}},
}

func HasherByName(n string) Hasher {
	for _, h := range Hashers {
		if h.Name == n {
			return h
		}
	}
	panic("no hasher " + n)
}

// Config is one search.
type Config struct {
	Kind      string // "map" or "set"
	Hasher    Hasher
	Ballast   int   // number of ballast keys (inserted by a fixed prefix, never touched again)
	Active    []int // active keys
	Values    []int // values written by Updated
	Start     string // "builder" (immutable.Map(h, tuples...)), "updated" (chain of Updated from the empty map), "zero" (zero value, == semantics)
	Model     bool  // C03 oracle
	Persist   bool  // C04 oracle
	MaxStates int
	// ShrinkOnly drops every transition that adds a key: starting from a value that holds all
	// active keys, the search visits every subset reachable by removals (trie nodes shrinking below
	// their thresholds) without re-growing through the array node, whose entry orders would blow the
	// state space up.
	ShrinkOnly bool
}

func (c Config) Name() string {
	n := fmt.Sprintf("%s/%s/ballast=%d/start=%s/active=%d", c.Kind, c.Hasher.Name, c.Ballast, c.Start, len(c.Active))
	if c.ShrinkOnly {
		n += "/shrink-only"
	}
	return n
}

func (c Config) ballastKeys() []int {
	var ks []int
	k := 0
	for len(ks) < c.Ballast {
		act := false
		for _, a := range c.Active {
			if a == k {
				act = true
			}
		}
		if !act {
			ks = append(ks, k)
		}
		k++
	}
	return ks
}

// ---------- structural dump ----------

func typeName(t reflect.Type) string {
	n := t.Name()
	if i := strings.Index(n, "["); i >= 0 {
		n = n[:i]
	}
	return n
}

type dumper struct {
	sb    strings.Builder
	addr  bool
	kinds map[string]int
	depth int
	max   int
}

func (d *dumper) dump(v reflect.Value) {
	switch v.Kind() {
	case reflect.Invalid:
		d.sb.WriteString("nil")
	case reflect.Ptr:
		if v.IsNil() {
			d.sb.WriteString("nil")
			return
		}
		if d.addr {
			fmt.Fprintf(&d.sb, "@%x", v.Pointer())
		}
		d.sb.WriteString("&")
		d.dump(v.Elem())
	case reflect.Interface:
		if v.IsNil() {
			d.sb.WriteString("nil")
			return
		}
		d.dump(v.Elem())
	case reflect.Struct:
		n := typeName(v.Type())
		if d.kinds != nil && strings.HasPrefix(n, "map") || n == "hamt" {
			if d.kinds != nil {
				d.kinds[n]++
			}
		}
		d.depth++
		if d.depth > d.max {
			d.max = d.depth
		}
		d.sb.WriteString(n)
		d.sb.WriteString("{")
		for i := 0; i < v.NumField(); i++ {
			f := v.Type().Field(i)
			if f.Name == "hasher" || f.Type.Kind() == reflect.Func {
				continue
			}
			d.sb.WriteString(f.Name)
			d.sb.WriteString(":")
			d.dump(v.Field(i))
			d.sb.WriteString(" ")
		}
		d.sb.WriteString("}")
		d.depth--
	case reflect.Slice:
		if v.IsNil() {
			d.sb.WriteString("nil[]")
			return
		}
		if d.addr {
			fmt.Fprintf(&d.sb, "@%x/%d/%d", v.Pointer(), v.Len(), v.Cap())
		}
		d.sb.WriteString("[")
		for i := 0; i < v.Len(); i++ {
			d.dump(v.Index(i))
			d.sb.WriteString(",")
		}
		d.sb.WriteString("]")
	case reflect.Array:
		d.sb.WriteString("[")
		for i := 0; i < v.Len(); i++ {
			d.dump(v.Index(i))
			d.sb.WriteString(",")
		}
		d.sb.WriteString("]")
	case reflect.Map:
		if v.IsNil() {
			d.sb.WriteString("nilmap")
			return
		}
		if d.addr {
			fmt.Fprintf(&d.sb, "@%x", v.Pointer())
		}
		var items []string
		it := v.MapRange()
		for it.Next() {
			sub := &dumper{addr: d.addr}
			sub.dump(it.Key())
			sub.sb.WriteString("=>")
			sub.dump(it.Value())
			items = append(items, sub.sb.String())
		}
		sort.Strings(items)
		d.sb.WriteString("map{" + strings.Join(items, ",") + "}")
	case reflect.Int, reflect.Int8, reflect.Int16, reflect.Int32, reflect.Int64:
		fmt.Fprintf(&d.sb, "%d", v.Int())
	case reflect.Uint, reflect.Uint8, reflect.Uint16, reflect.Uint32, reflect.Uint64, reflect.Uintptr:
		fmt.Fprintf(&d.sb, "%#x", v.Uint())
	case reflect.Bool:
		fmt.Fprintf(&d.sb, "%v", v.Bool())
	case reflect.String:
		fmt.Fprintf(&d.sb, "%q", v.String())
	case reflect.Func:
		d.sb.WriteString("func")
	default:
		fmt.Fprintf(&d.sb, "<%s>", v.Kind())
	}
}

// hasher128 walks a value like dumper but folds everything into two independent 64-bit
// hashes (no strings); used for the dedup key and the before/after persistence comparison.
type hasher128 struct {
	a, b uint64
	addr bool
	ok   bool
}

var typeIDs = map[reflect.Type]uint64{}

func (h *hasher128) mix(x uint64) {
	h.a = (h.a ^ x) * 1099511628211
	h.b = (h.b ^ (x + 0x9e3779b97f4a7c15)) * 0xff51afd7ed558ccd
	h.b ^= h.b >> 29
}

func (h *hasher128) walk(v reflect.Value) {
	switch v.Kind() {
	case reflect.Invalid:
		h.mix(1)
	case reflect.Ptr:
		if v.IsNil() {
			h.mix(2)
			return
		}
		if h.addr {
			h.mix(uint64(v.Pointer()))
		}
		h.mix(3)
		h.walk(v.Elem())
	case reflect.Interface:
		if v.IsNil() {
			h.mix(4)
			return
		}
		h.walk(v.Elem())
	case reflect.Struct:
		t := v.Type()
		id, ok := typeIDs[t]
		if !ok {
			id = 1000
			for _, c := range typeName(t) {
				id = id*131 + uint64(c)
			}
			typeIDs[t] = id
		}
		h.mix(id)
		for i := 0; i < v.NumField(); i++ {
			f := t.Field(i)
			if f.Name == "hasher" || f.Type.Kind() == reflect.Func {
				continue
			}
			h.walk(v.Field(i))
		}
		h.mix(5)
	case reflect.Slice:
		if v.IsNil() {
			h.mix(6)
			return
		}
		if h.addr {
			h.mix(uint64(v.Pointer()))
			h.mix(uint64(v.Cap()))
		}
		h.mix(7 + uint64(v.Len())<<8)
		for i := 0; i < v.Len(); i++ {
			h.walk(v.Index(i))
		}
	case reflect.Array:
		h.mix(8)
		for i := 0; i < v.Len(); i++ {
			h.walk(v.Index(i))
		}
	case reflect.Int, reflect.Int8, reflect.Int16, reflect.Int32, reflect.Int64:
		h.mix(9)
		h.mix(uint64(v.Int()))
	case reflect.Uint, reflect.Uint8, reflect.Uint16, reflect.Uint32, reflect.Uint64, reflect.Uintptr:
		h.mix(10)
		h.mix(v.Uint())
	case reflect.Bool:
		if v.Bool() {
			h.mix(11)
		} else {
			h.mix(12)
		}
	default:
		// maps, strings, ...: fall back to the string dump of this subtree
		d := &dumper{addr: h.addr}
		d.dump(v)
		for _, c := range d.sb.String() {
			h.mix(uint64(c))
		}
	}
}

// Hash128 returns a 128-bit structural hash of v (with identities when addr is set).
func Hash128(v any, addr bool) (k [2]uint64, ok bool) {
	defer func() {
		if r := recover(); r != nil {
			ok = false
		}
	}()
	h := &hasher128{a: 1469598103934665603, b: 88172645463325252, addr: addr}
	h.walk(reflect.ValueOf(v))
	return [2]uint64{h.a, h.b}, true
}

// Dump returns the structural dump of any value; with addr it also records the identity of
// every pointer target, slice backing array and map (used by the persistence oracle).
func Dump(v any, addr bool, kinds map[string]int) (s string, depth int, ok bool) {
	defer func() {
		if r := recover(); r != nil {
			s, ok = fmt.Sprintf("dump failed: %v", r), false
		}
	}()
	d := &dumper{addr: addr, kinds: kinds}
	d.dump(reflect.ValueOf(v))
	return d.sb.String(), d.max, true
}

func rootKind(v any) string {
	defer func() { recover() }()
	rv := reflect.ValueOf(v)
	// descend through interfaces/pointers/structs until a field called root is found
	for i := 0; i < 8; i++ {
		switch rv.Kind() {
		case reflect.Interface, reflect.Ptr:
			if rv.IsNil() {
				return "nil"
			}
			rv = rv.Elem()
		case reflect.Struct:
			if f := rv.FieldByName("root"); f.IsValid() {
				if f.IsNil() {
					return "empty"
				}
				return typeName(f.Elem().Elem().Type())
			}
			if f := rv.FieldByName("Base"); f.IsValid() {
				rv = f
			} else if f := rv.FieldByName("set"); f.IsValid() {
				rv = f
			} else if f := rv.FieldByName("m"); f.IsValid() {
				rv = f
			} else {
				return typeName(rv.Type())
			}
		default:
			return rv.Kind().String()
		}
	}
	return "?"
}

// ---------- reference ----------

func refDump(ref map[int]int) string {
	ks := make([]int, 0, len(ref))
	for k := range ref {
		ks = append(ks, k)
	}
	sort.Ints(ks)
	var sb strings.Builder
	for _, k := range ks {
		fmt.Fprintf(&sb, "%d:%d,", k, ref[k])
	}
	return sb.String()
}

func cloneRef(r map[int]int) map[int]int {
	n := make(map[int]int, len(r)+1)
	for k, v := range r {
		n[k] = v
	}
	return n
}

type state struct {
	m      fp.Map[int, int]
	s      fp.Set[int]
	ref    map[int]int
	parent int
	op     string
	snap   [2]uint64
	snapS  string
}

type search struct {
	x        *mc.X
	cfg      Config
	states   []*state
	seen     map[string]int
	universe []int
	kinds    map[string]int
	edges    map[string]int
	maxDepth int
	trans    int64
	dumpOK   bool
	nviol    int
}

func (s *search) history(i int) string {
	var ops []string
	for i >= 0 {
		st := s.states[i]
		ops = append(ops, st.op)
		i = st.parent
	}
	for l, r := 0, len(ops)-1; l < r; l, r = l+1, r-1 {
		ops[l], ops[r] = ops[r], ops[l]
	}
	return strings.Join(ops, " . ")
}

func (s *search) report(key string, hist string, format string, args ...any) {
	s.nviol++
	if s.x.HasReport(key) {
		return
	}
	s.x.Report(key, "%s\n  config: %s\n  history: %s", fmt.Sprintf(format, args...), s.cfg.Name(), hist)
}

// drain reads an iterator with the HasNext/Next protocol, bounded.
func drain[T any](it fp.Iterator[T], limit int) (out []T, overrun bool, pv any) {
	pv = mc.Catch(func() {
		for it.HasNext() {
			if len(out) > limit {
				overrun = true
				return
			}
			out = append(out, it.Next())
		}
	})
	return
}

// checkMap compares every observation of m with the reference.
func (s *search) checkMap(m fp.Map[int, int], ref map[int]int, hist string, site string) {
	pv := mc.Catch(func() {
		if m.Size() != len(ref) {
			s.report(site+"/Size", hist, "Size()=%d, reference has %d distinct keys %s", m.Size(), len(ref), refDump(ref))
		}
		if m.IsEmpty() != (len(ref) == 0) || m.NonEmpty() != (len(ref) != 0) {
			s.report(site+"/IsEmpty", hist, "IsEmpty()=%v NonEmpty()=%v, reference size %d", m.IsEmpty(), m.NonEmpty(), len(ref))
		}
		for _, k := range s.universe {
			got := m.Get(k)
			want, ok := ref[k]
			if got.IsDefined() != ok || (ok && got.Get() != want) {
				s.report(site+"/Get", hist, "Get(%d)=%v, reference: present=%v value=%d", k, got, ok, want)
			}
			if m.Contains(k) != ok {
				s.report(site+"/Contains", hist, "Contains(%d)=%v, reference %v", k, m.Contains(k), ok)
			}
		}
		ents, over, ipv := drain(m.Iterator(), len(ref)+3)
		if ipv != nil {
			s.report(site+"/Iterator-panic", hist, "Iterator panicked: %v", ipv)
			return
		}
		if over {
			s.report(site+"/Iterator-overrun", hist, "Iterator yields more than %d entries, reference has %d", len(ref)+3, len(ref))
			return
		}
		seen := map[int]int{}
		for _, e := range ents {
			seen[e.I1]++
			if v, ok := ref[e.I1]; !ok || v != e.I2 {
				s.report(site+"/Iterator-entry", hist, "Iterator yields (%d,%d), reference: present=%v value=%d", e.I1, e.I2, ok, v)
			}
		}
		for k := range ref {
			if seen[k] != 1 {
				s.report(site+"/Iterator-count", hist, "Iterator yields key %d %d times (want exactly once); entries %v", k, seen[k], ents)
				break
			}
		}
		if len(ents) != len(ref) {
			s.report(site+"/Iterator-count", hist, "Iterator yields %d entries, reference has %d", len(ents), len(ref))
		}
		ks, _, _ := drain(m.Keys(), len(ref)+3)
		vs, _, _ := drain(m.Values(), len(ref)+3)
		sort.Ints(ks)
		sort.Ints(vs)
		var wk, wv []int
		for k, v := range ref {
			wk = append(wk, k)
			wv = append(wv, v)
		}
		sort.Ints(wk)
		sort.Ints(wv)
		if fmt.Sprint(ks) != fmt.Sprint(wk) || fmt.Sprint(vs) != fmt.Sprint(wv) {
			s.report(site+"/Keys-Values", hist, "Keys()=%v Values()=%v, reference keys %v values %v", ks, vs, wk, wv)
		}
	})
	if pv != nil {
		s.report(site+"/panic", hist, "observation panicked: %v", pv)
	}
}

func (s *search) checkSet(m fp.Set[int], ref map[int]int, hist string, site string) {
	pv := mc.Catch(func() {
		if m.Size() != len(ref) {
			s.report(site+"/Size", hist, "Size()=%d, reference has %d elements %s", m.Size(), len(ref), refDump(ref))
		}
		if m.IsEmpty() != (len(ref) == 0) || m.NonEmpty() != (len(ref) != 0) {
			s.report(site+"/IsEmpty", hist, "IsEmpty()=%v NonEmpty()=%v, reference size %d", m.IsEmpty(), m.NonEmpty(), len(ref))
		}
		for _, k := range s.universe {
			_, ok := ref[k]
			if m.Contains(k) != ok {
				s.report(site+"/Contains", hist, "Contains(%d)=%v, reference %v", k, m.Contains(k), ok)
			}
		}
		ents, over, ipv := drain(m.Iterator(), len(ref)+3)
		if ipv != nil {
			s.report(site+"/Iterator-panic", hist, "Iterator panicked: %v", ipv)
			return
		}
		if over {
			s.report(site+"/Iterator-overrun", hist, "Iterator yields more than %d elements", len(ref)+3)
			return
		}
		sort.Ints(ents)
		var want []int
		for k := range ref {
			want = append(want, k)
		}
		sort.Ints(want)
		if fmt.Sprint(ents) != fmt.Sprint(want) {
			s.report(site+"/Iterator", hist, "Iterator yields %v, reference %v", ents, want)
		}
	})
	if pv != nil {
		s.report(site+"/panic", hist, "observation panicked: %v", pv)
	}
}

type mapOp struct {
	name  string
	apply func(m fp.Map[int, int]) fp.Map[int, int]
	ref   func(r map[int]int)
}

type setOp struct {
	name  string
	apply func(m fp.Set[int]) fp.Set[int]
	ref   func(r map[int]int)
}

func (s *search) mapOps() []mapOp {
	c := s.cfg
	var ops []mapOp
	for _, k := range c.Active {
		k := k
		for _, v := range c.Values {
			v := v
			ops = append(ops, mapOp{fmt.Sprintf("Updated(%d,%d)", k, v),
				func(m fp.Map[int, int]) fp.Map[int, int] { return m.Updated(k, v) },
				func(r map[int]int) { r[k] = v }})
		}
		ops = append(ops, mapOp{fmt.Sprintf("Removed(%d)", k),
			func(m fp.Map[int, int]) fp.Map[int, int] { return m.Removed(k) },
			func(r map[int]int) { delete(r, k) }})
		ops = append(ops, mapOp{fmt.Sprintf("UpdatedWith(%d,set %d)", k, c.Values[len(c.Values)-1]),
			func(m fp.Map[int, int]) fp.Map[int, int] {
				return m.UpdatedWith(k, func(fp.Option[int]) fp.Option[int] { return fp.Some(c.Values[len(c.Values)-1]) })
			},
			func(r map[int]int) { r[k] = c.Values[len(c.Values)-1] }})
		ops = append(ops, mapOp{fmt.Sprintf("UpdatedWith(%d,clear)", k),
			func(m fp.Map[int, int]) fp.Map[int, int] {
				return m.UpdatedWith(k, func(fp.Option[int]) fp.Option[int] { return fp.None[int]() })
			},
			func(r map[int]int) { delete(r, k) }})
		ops = append(ops, mapOp{fmt.Sprintf("UpdatedWith(%d,keep)", k),
			func(m fp.Map[int, int]) fp.Map[int, int] {
				return m.UpdatedWith(k, func(o fp.Option[int]) fp.Option[int] { return o })
			},
			func(r map[int]int) {}})
	}
	for i := 0; i+1 < len(c.Active); i++ {
		a, b := c.Active[i], c.Active[i+1]
		ops = append(ops, mapOp{fmt.Sprintf("Removed(%d,%d)", a, b),
			func(m fp.Map[int, int]) fp.Map[int, int] { return m.Removed(a, b) },
			func(r map[int]int) { delete(r, a); delete(r, b) }})
	}
	ops = append(ops, mapOp{"Removed(9999)",
		func(m fp.Map[int, int]) fp.Map[int, int] { return m.Removed(9999) },
		func(r map[int]int) {}})
	if len(c.Active) >= 2 {
		a, b := c.Active[0], c.Active[len(c.Active)-1]
		other := immutable.Map[int, int](c.Hasher, fp.Tuple2[int, int]{I1: a, I2: c.Values[len(c.Values)-1]}, fp.Tuple2[int, int]{I1: b, I2: c.Values[0]})
		ops = append(ops, mapOp{fmt.Sprintf("Concat(Map(%d:%d,%d:%d))", a, c.Values[len(c.Values)-1], b, c.Values[0]),
			func(m fp.Map[int, int]) fp.Map[int, int] { return m.Concat(other) },
			func(r map[int]int) { r[a] = c.Values[len(c.Values)-1]; r[b] = c.Values[0] }})
	}
	return ops
}

func (s *search) setOps() []setOp {
	c := s.cfg
	var ops []setOp
	for _, k := range c.Active {
		k := k
		ops = append(ops, setOp{fmt.Sprintf("Incl(%d)", k),
			func(m fp.Set[int]) fp.Set[int] { return m.Incl(k) },
			func(r map[int]int) { r[k] = 1 }})
		ops = append(ops, setOp{fmt.Sprintf("Excl(%d)", k),
			func(m fp.Set[int]) fp.Set[int] { return m.Excl(k) },
			func(r map[int]int) { delete(r, k) }})
	}
	ops = append(ops, setOp{"Excl(9999)",
		func(m fp.Set[int]) fp.Set[int] { return m.Excl(9999) },
		func(r map[int]int) {}})
	if len(c.Active) >= 2 {
		a, b := c.Active[0], c.Active[len(c.Active)-1]
		other := immutable.Set[int](c.Hasher, a, b)
		ops = append(ops, setOp{fmt.Sprintf("Concat(Set(%d,%d))", a, b),
			func(m fp.Set[int]) fp.Set[int] { return m.Concat(other) },
			func(r map[int]int) { r[a] = 1; r[b] = 1 }})
	}
	return ops
}

func (s *search) value(st *state) any {
	if s.cfg.Kind == "map" {
		return st.m
	}
	return st.s
}

func (s *search) key(st *state) string {
	k, ok := Hash128(s.value(st), false)
	if !ok {
		s.dumpOK = false
	}
	return fmt.Sprintf("%x.%x|%s", k[0], k[1], refDump(st.ref))
}

// add registers a new state if unseen; returns its index and whether it is new.
func (s *search) add(st *state) (int, bool) {
	k := s.key(st)
	if i, ok := s.seen[k]; ok {
		return i, false
	}
	if s.cfg.Persist {
		st.snap, _ = Hash128(s.value(st), true)
		if len(s.states) < 400 {
			st.snapS, _, _ = Dump(s.value(st), true, nil)
		}
	}
	if _, depth, ok := Dump(s.value(st), false, s.kinds); ok && depth > s.maxDepth {
		s.maxDepth = depth
	}
	s.states = append(s.states, st)
	s.seen[k] = len(s.states) - 1
	return len(s.states) - 1, true
}

// Search runs one configuration to closure inside the current execution.
func Search(x *mc.X, cfg Config) {
	s := &search{x: x, cfg: cfg, seen: map[string]int{}, kinds: map[string]int{}, edges: map[string]int{}, dumpOK: true}
	ballast := cfg.ballastKeys()
	s.universe = append(append([]int{}, cfg.Active...), ballast...)
	s.universe = append(s.universe, 9999)
	// keys that were never inserted but share the full 32-bit hash of an active key where the hasher allows
	for _, a := range cfg.Active {
		for cand := 10000; cand < 10400; cand++ {
			if cfg.Hasher.Hash(cand) == cfg.Hasher.Hash(a) {
				s.universe = append(s.universe, cand)
				break
			}
		}
	}
	if cfg.MaxStates == 0 {
		cfg.MaxStates = 30000
		s.cfg = cfg
	}
	ref := map[int]int{}
	init := &state{parent: -1}
	pv := mc.Catch(func() {
		if cfg.Kind == "map" {
			switch cfg.Start {
			case "builder":
				var ts []fp.Tuple2[int, int]
				for _, k := range ballast {
					ts = append(ts, fp.Tuple2[int, int]{I1: k, I2: 9})
					ref[k] = 9
				}
				init.m = immutable.Map[int, int](cfg.Hasher, ts...)
				init.op = fmt.Sprintf("immutable.Map(h, %d ballast tuples)", len(ballast))
			case "updated":
				init.m = immutable.Map[int, int](cfg.Hasher)
				for _, k := range ballast {
					init.m = init.m.Updated(k, 9)
					ref[k] = 9
				}
				init.op = fmt.Sprintf("immutable.Map(h) then %d x Updated(ballast)", len(ballast))
				if cfg.ShrinkOnly {
					for _, k := range cfg.Active {
						init.m = init.m.Updated(k, cfg.Values[0])
						ref[k] = cfg.Values[0]
					}
					init.op += fmt.Sprintf(" then Updated(k,%d) for every active key %v", cfg.Values[0], cfg.Active)
				}
			case "zero":
				for _, k := range ballast {
					init.m = init.m.Updated(k, 9)
					ref[k] = 9
				}
				init.op = fmt.Sprintf("fp.Map{} then %d x Updated(ballast)", len(ballast))
			}
		} else {
			switch cfg.Start {
			case "builder":
				for _, k := range ballast {
					ref[k] = 1
				}
				init.s = immutable.Set[int](cfg.Hasher, ballast...)
				init.op = fmt.Sprintf("immutable.Set(h, %d ballast)", len(ballast))
			case "updated":
				init.s = immutable.Set[int](cfg.Hasher)
				for _, k := range ballast {
					init.s = init.s.Incl(k)
					ref[k] = 1
				}
				init.op = fmt.Sprintf("immutable.Set(h) then %d x Incl(ballast)", len(ballast))
				if cfg.ShrinkOnly {
					for _, k := range cfg.Active {
						init.s = init.s.Incl(k)
						ref[k] = 1
					}
					init.op += fmt.Sprintf(" then Incl(k) for every active key %v", cfg.Active)
				}
			case "zero":
				for _, k := range ballast {
					init.s = init.s.Incl(k)
					ref[k] = 1
				}
				init.op = fmt.Sprintf("fp.Set{} then %d x Incl(ballast)", len(ballast))
			}
		}
	})
	if pv != nil {
		x.Report("construct/panic", "constructing the base value panicked: %v (config %s)", pv, cfg.Name())
		return
	}
	init.ref = ref
	s.add(init)
	if cfg.Model {
		if cfg.Kind == "map" {
			s.checkMap(init.m, ref, init.op, "map")
		} else {
			s.checkSet(init.s, ref, init.op, "set")
		}
	}
	mops := s.mapOps()
	sops := s.setOps()
	capped := false
	for i := 0; i < len(s.states); i++ {
		st := s.states[i]
		if len(s.states) >= cfg.MaxStates {
			capped = true
			break
		}
		if s.nviol > 2000 || (i%64 == 0 && x.DeadlineExceeded()) {
			// enough evidence of a defect, or out of time: stop this search
			capped = true
			break
		}
		nops := len(mops)
		if cfg.Kind == "set" {
			nops = len(sops)
		}
		for j := 0; j < nops; j++ {
			nst := &state{parent: i, ref: cloneRef(st.ref)}
			var opName string
			pv := mc.Catch(func() {
				if cfg.Kind == "map" {
					opName = mops[j].name
					nst.m = mops[j].apply(st.m)
					mops[j].ref(nst.ref)
				} else {
					opName = sops[j].name
					nst.s = sops[j].apply(st.s)
					sops[j].ref(nst.ref)
				}
			})
			nst.op = opName
			if cfg.ShrinkOnly && pv == nil && len(nst.ref) > len(st.ref) {
				continue
			}
			s.trans++
			hist := ""
			histf := func() string {
				if s.nviol > 2000 {
					return "(history omitted)"
				}
				if hist == "" {
					hist = s.history(i) + " . " + opName
				}
				return hist
			}
			site := cfg.Kind + "/" + strings.SplitN(opName, "(", 2)[0]
			if pv != nil {
				s.report(site+"/panic", histf(), "%s panicked: %v", opName, pv)
				continue
			}
			if cfg.Persist {
				// the value the operation was applied to must be untouched
				if now, ok := Hash128(s.value(st), true); ok && now != st.snap {
					nowS, _, _ := Dump(s.value(st), true, nil)
					s.report("persist/"+site, histf(), "%s modified the value it was applied to\n  before: %s\n  after:  %s", opName, stripAddr(st.snapS), stripAddr(nowS))
					st.snap = now
				}
			}
			if cfg.Model {
				if cfg.Kind == "map" {
					s.checkMap(nst.m, nst.ref, histf(), site)
				} else {
					s.checkSet(nst.s, nst.ref, histf(), site)
				}
			}
			s.add(nst)
			s.edges[rootKind(s.value(st))+"->"+rootKind(s.value(nst))]++
		}
	}
	// binary set operations between every pair of reached states
	if cfg.Kind == "set" && cfg.Model {
		n := len(s.states)
		if n > 160 {
			n = 160
		}
		for i := 0; i < n; i++ {
			for j := 0; j < n; j++ {
				a, b := s.states[i], s.states[j]
				s.trans += 3
				pv := mc.Catch(func() {
					d := a.s.Diff(b.s)
					dr := map[int]int{}
					for k := range a.ref {
						if _, ok := b.ref[k]; !ok {
							dr[k] = 1
						}
					}
					hist := "A = " + s.history(i) + " ; B = " + s.history(j) + " ; A.Diff(B)"
					s.checkSet(d, dr, hist, "set/Diff")
					in := a.s.Intersect(b.s)
					ir := map[int]int{}
					sub := true
					for k := range a.ref {
						if _, ok := b.ref[k]; ok {
							ir[k] = 1
						} else {
							sub = false
						}
					}
					s.checkSet(in, ir, "A = "+s.history(i)+" ; B = "+s.history(j)+" ; A.Intersect(B)", "set/Intersect")
					if a.s.SubsetOf(b.s) != sub {
						s.report("set/SubsetOf", "A = "+s.history(i)+" ; B = "+s.history(j), "A.SubsetOf(B)=%v, reference %v", a.s.SubsetOf(b.s), sub)
					}
				})
				if pv != nil {
					s.report("set/binary/panic", "A = "+s.history(i)+" ; B = "+s.history(j), "Diff/Intersect/SubsetOf panicked: %v", pv)
				}
			}
		}
	}
	// every older version must still be intact at the end of the search
	if cfg.Persist {
		for i, st := range s.states {
			if now, ok := Hash128(s.value(st), true); ok && now != st.snap {
				nowS, _, _ := Dump(s.value(st), true, nil)
				s.report("persist/"+cfg.Kind+"/late", s.history(i), "an older version changed after later operations on derived values\n  before: %s\n  after:  %s", stripAddr(st.snapS), stripAddr(nowS))
			}
		}
	}
	if cfg.Model {
		// re-observe every version at the end as well (an older version must still answer like its reference)
		for i, st := range s.states {
			if cfg.Kind == "map" {
				s.checkMap(st.m, st.ref, s.history(i)+" (re-inspected at end of search)", "map/late")
			} else {
				s.checkSet(st.s, st.ref, s.history(i)+" (re-inspected at end of search)", "set/late")
			}
		}
	}
	x.AddStates(int64(len(s.states)))
	x.AddTransitions(s.trans)
	for k, n := range s.kinds {
		x.Count("states-containing-node/"+k, int64(n))
	}
	for k, n := range s.edges {
		x.Count("root-kind-edge/"+k, int64(n))
	}
	x.Count("max-node-depth/"+cfg.Name(), int64(s.maxDepth))
	if capped {
		x.Incomplete("state cap")
		x.Count("capped-configs", 1)
	}
	if !s.dumpOK {
		x.Count("dump-failed-configs", 1)
	}
	x.Logf("%s: states=%d transitions=%d maxdepth=%d kinds=%v", cfg.Name(), len(s.states), s.trans, s.maxDepth, s.kinds)
	x.Observe(cfg.Name(), len(s.states), s.trans)
	if len(s.states) > 1 {
		x.NonTrivial()
	}
}

func stripAddr(s string) string {
	var sb strings.Builder
	for i := 0; i < len(s); i++ {
		if s[i] == '@' {
			j := i + 1
			for j < len(s) && (s[j] >= '0' && s[j] <= '9' || s[j] >= 'a' && s[j] <= 'f' || s[j] == '/') {
				j++
			}
			i = j - 1
			continue
		}
		sb.WriteByte(s[i])
	}
	if sb.Len() > 600 {
		return sb.String()[:600] + "..."
	}
	return sb.String()
}
