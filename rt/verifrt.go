// Package verifrt is added to github.com/csgura/fp by a `go build -overlay` (it does not
// exist in /repo). The rewritten library files call it instead of sync, sync/atomic and the
// go statement; with no scheduler installed everything falls through to the real primitive.
package verifrt

// Hook functions are installed by verif/mc (build tag verifrt). All are nil in a plain run.
var (
	Active  func() bool
	Point   func(cell uintptr, kind int, note string)
	GoHook  func(fn func()) bool
	OnceDo  func(cell uintptr, f func()) bool
	WgAdd   func(cell uintptr, d int) bool
	WgWait  func(cell uintptr) bool
	MapIter func(site string, n int) []int
)

// Kinds (must match verif/mc).
const (
	KStart = iota
	KAtomic
	KLock
	KUnlock
	KOnce
	KOnceExit
	KUser
	KAwait
	KWgWait
	KWgAdd
	KAtomicLoad
)

// On reports whether a scheduler owns the current execution.
func On() bool { return Active != nil && Active() }

// Go replaces the go statement.
func Go(fn func()) {
	if GoHook != nil && GoHook(fn) {
		return
	}
	go fn()
}
