package verifrt

import (
	"fmt"
	"iter"
	"os"
	"reflect"
	"sort"
	"strconv"
	"strings"
	"sync"
)

// Map-iteration-order control for the generator programs (C13). A rewritten
// `for k, v := range m` iterates over MapOrder(m, site): keys are put into a canonical order
// and then permuted as the environment says, so the order of every dynamic map iteration is a
// choice of the explorer instead of the Go runtime's random seed.
//
//	VERIF_MAPORDER     = "site|occ|perm;site|occ|perm..."   occ = * or the 0-based occurrence
//	                     perm = rev | rot<k> | swap<i>
//	VERIF_MAPORDER_LOG = file to which "site occurrence nkeys" lines are appended
//
// With neither variable set the canonical order is used (still deterministic).

type moRule struct {
	site string
	occ  int // -1 = every occurrence
	perm string
}

var (
	moOnce  sync.Once
	moRules []moRule
	moLog   *os.File
	moMu    sync.Mutex
	moCount = map[string]int{}
)

func moInit() {
	for _, e := range strings.Split(os.Getenv("VERIF_MAPORDER"), ";") {
		f := strings.Split(e, "|")
		if len(f) != 3 {
			continue
		}
		occ := -1
		if f[1] != "*" {
			occ, _ = strconv.Atoi(f[1])
		}
		moRules = append(moRules, moRule{f[0], occ, f[2]})
	}
	if p := os.Getenv("VERIF_MAPORDER_LOG"); p != "" {
		moLog, _ = os.OpenFile(p, os.O_CREATE|os.O_WRONLY|os.O_APPEND, 0o644)
	}
}

type poser interface{ Pos() int }

func keyString(v reflect.Value) string {
	if !v.IsValid() {
		return "~nil"
	}
	if v.CanInterface() {
		i := v.Interface()
		// AST / types objects: order by source position first
		if m := v.MethodByName("Pos"); m.IsValid() && m.Type().NumIn() == 0 && m.Type().NumOut() == 1 && m.Type().Out(0).Kind() == reflect.Int {
			if !(v.Kind() == reflect.Ptr && v.IsNil()) {
				pos := m.Call(nil)[0].Int()
				s := ""
				if st, ok := i.(fmt.Stringer); ok {
					s = st.String()
				}
				return fmt.Sprintf("pos:%012d:%s", pos, s)
			}
		}
		if st, ok := i.(fmt.Stringer); ok && !(v.Kind() == reflect.Ptr && v.IsNil()) {
			return "str:" + st.String()
		}
	}
	switch v.Kind() {
	case reflect.Int, reflect.Int8, reflect.Int16, reflect.Int32, reflect.Int64:
		return fmt.Sprintf("int:%020d", v.Int()+(1<<62))
	case reflect.Uint, reflect.Uint8, reflect.Uint16, reflect.Uint32, reflect.Uint64, reflect.Uintptr:
		return fmt.Sprintf("uint:%020d", v.Uint())
	case reflect.String:
		return "s:" + v.String()
	case reflect.Bool:
		return fmt.Sprintf("b:%v", v.Bool())
	case reflect.Interface, reflect.Ptr:
		if v.IsNil() {
			return "~nil"
		}
		return v.Type().String() + ">" + keyString(v.Elem())
	case reflect.Struct:
		var sb strings.Builder
		sb.WriteString("{")
		for i := 0; i < v.NumField(); i++ {
			f := v.Field(i)
			switch f.Kind() {
			case reflect.Ptr, reflect.Map, reflect.Slice, reflect.Func, reflect.Chan, reflect.UnsafePointer:
				sb.WriteString("*,") // no addresses in the canonical key
			default:
				sb.WriteString(keyString(f))
				sb.WriteString(",")
			}
		}
		sb.WriteString("}")
		return sb.String()
	}
	return fmt.Sprintf("%v", v)
}

// order returns the permutation of n canonical positions to use for this occurrence.
func order(site string, n int) []int {
	moOnce.Do(moInit)
	moMu.Lock()
	occ := moCount[site]
	moCount[site] = occ + 1
	if moLog != nil {
		fmt.Fprintf(moLog, "%s %d %d\n", site, occ, n)
	}
	moMu.Unlock()
	idx := make([]int, n)
	for i := range idx {
		idx[i] = i
	}
	for _, r := range moRules {
		if r.site != site || (r.occ >= 0 && r.occ != occ) || n < 2 {
			continue
		}
		switch {
		case r.perm == "rev":
			for i, j := 0, n-1; i < j; i, j = i+1, j-1 {
				idx[i], idx[j] = idx[j], idx[i]
			}
		case strings.HasPrefix(r.perm, "rot"):
			k, _ := strconv.Atoi(r.perm[3:])
			k %= n
			idx = append(idx[k:], idx[:k]...)
		case strings.HasPrefix(r.perm, "swap"):
			k, _ := strconv.Atoi(r.perm[4:])
			if k+1 < n {
				idx[k], idx[k+1] = idx[k+1], idx[k]
			}
		}
	}
	return idx
}

func sortedKeys[M ~map[K]V, K comparable, V any](m M) []K {
	ks := make([]K, 0, len(m))
	for k := range m {
		ks = append(ks, k)
	}
	strs := make(map[K]string, len(ks))
	for _, k := range ks {
		strs[k] = keyString(reflect.ValueOf(&k).Elem())
	}
	sort.SliceStable(ks, func(i, j int) bool { return strs[ks[i]] < strs[ks[j]] })
	return ks
}

// MapOrder replaces `range m`.
func MapOrder[M ~map[K]V, K comparable, V any](m M, site string) iter.Seq2[K, V] {
	return func(yield func(K, V) bool) {
		ks := sortedKeys(m)
		for _, i := range order(site, len(ks)) {
			k := ks[i]
			v, ok := m[k]
			if !ok {
				continue // deleted by the loop body meanwhile
			}
			if !yield(k, v) {
				return
			}
		}
	}
}

// MapOrderKeys replaces maps.Keys(m).
func MapOrderKeys[M ~map[K]V, K comparable, V any](m M, site string) iter.Seq[K] {
	return func(yield func(K) bool) {
		for k := range MapOrder(m, site) {
			if !yield(k) {
				return
			}
		}
	}
}

// MapOrderValues replaces maps.Values(m).
func MapOrderValues[M ~map[K]V, K comparable, V any](m M, site string) iter.Seq[V] {
	return func(yield func(V) bool) {
		for _, v := range MapOrder(m, site) {
			if !yield(v) {
				return
			}
		}
	}
}

// ---- map accesses as scheduling points (concurrency overlay, selected packages only) ----

// MapRange replaces `range m` in packages whose plain map accesses are made visible to the
// scheduler: every element read is a scheduling point on the map's identity, so a writer that
// mutates a published map in place can be interleaved with a reader iterating it. Without a
// scheduler it is the native range.
func MapRange[M ~map[K]V, K comparable, V any](m M, site string) iter.Seq2[K, V] {
	return func(yield func(K, V) bool) {
		if !On() {
			for k, v := range m {
				if !yield(k, v) {
					return
				}
			}
			return
		}
		cell := reflect.ValueOf(m).Pointer()
		for _, k := range sortedKeys(m) {
			Point(cell, KUser, "map-read "+site)
			v, ok := m[k]
			if !ok {
				continue
			}
			if !yield(k, v) {
				return
			}
		}
	}
}

// MapWrite is inserted before `m[k] = v` and `delete(m, k)`.
func MapWrite[M ~map[K]V, K comparable, V any](m M, site string) {
	if On() && m != nil {
		Point(reflect.ValueOf(m).Pointer(), KUser, "map-write "+site)
	}
}
