// Package vsync stands in for package sync in instrumented builds.
package vsync

import (
	"sync"
	"unsafe"

	"github.com/csgura/fp/verifrt"
)

type (
	Locker    = sync.Locker
	Cond      = sync.Cond
	Map       = sync.Map
	Pool      = sync.Pool
)

func NewCond(l Locker) *Cond { return sync.NewCond(l) }

func OnceFunc(f func()) func() { return sync.OnceFunc(f) }

type Mutex struct {
	real sync.Mutex
}

func (m *Mutex) Lock() {
	if verifrt.On() {
		verifrt.Point(uintptr(unsafe.Pointer(m)), verifrt.KLock, "Mutex.Lock")
		return
	}
	m.real.Lock()
}

func (m *Mutex) Unlock() {
	if verifrt.On() {
		verifrt.Point(uintptr(unsafe.Pointer(m)), verifrt.KUnlock, "Mutex.Unlock")
		return
	}
	m.real.Unlock()
}

func (m *Mutex) TryLock() bool { return m.real.TryLock() }

// RWMutex is modelled as an exclusive lock under the scheduler (sound for safety
// properties of the code under test: fewer behaviours of readers overlap, none are added).
type RWMutex struct {
	real sync.RWMutex
}

func (m *RWMutex) Lock() {
	if verifrt.On() {
		verifrt.Point(uintptr(unsafe.Pointer(m)), verifrt.KLock, "RWMutex.Lock")
		return
	}
	m.real.Lock()
}
func (m *RWMutex) Unlock() {
	if verifrt.On() {
		verifrt.Point(uintptr(unsafe.Pointer(m)), verifrt.KUnlock, "RWMutex.Unlock")
		return
	}
	m.real.Unlock()
}
func (m *RWMutex) RLock() {
	if verifrt.On() {
		verifrt.Point(uintptr(unsafe.Pointer(m)), verifrt.KLock, "RWMutex.RLock")
		return
	}
	m.real.RLock()
}
func (m *RWMutex) RUnlock() {
	if verifrt.On() {
		verifrt.Point(uintptr(unsafe.Pointer(m)), verifrt.KUnlock, "RWMutex.RUnlock")
		return
	}
	m.real.RUnlock()
}

type Once struct {
	real sync.Once
}

func (o *Once) Do(f func()) {
	if verifrt.On() {
		if verifrt.OnceDo(uintptr(unsafe.Pointer(o)), f) {
			return
		}
	}
	o.real.Do(f)
}

type WaitGroup struct {
	real sync.WaitGroup
}

func (w *WaitGroup) Add(d int) {
	if verifrt.On() && verifrt.WgAdd(uintptr(unsafe.Pointer(w)), d) {
		return
	}
	w.real.Add(d)
}
func (w *WaitGroup) Done() { w.Add(-1) }
func (w *WaitGroup) Wait() {
	if verifrt.On() && verifrt.WgWait(uintptr(unsafe.Pointer(w))) {
		return
	}
	w.real.Wait()
}
