// Package vsync stands in for package sync in instrumented builds.
package vsync

import (
	"sync"
	"unsafe"

	"github.com/csgura/fp/verifrt"
)

type (
	Locker = sync.Locker
	Cond   = sync.Cond
	Map    = sync.Map
)

// Pool mirrors sync.Pool. Under the scheduler it is a plain LIFO free list: sync.Pool may hand
// back any item that was Put (or call New), and which one it does depends on the P the caller
// runs on and on garbage collections, i.e. on nondeterminism the explorer does not own. The
// LIFO model always reuses the most recently returned item - the choice under which a stale
// reference to a recycled object (ABA) shows - and makes executions replayable.
type Pool struct {
	New   func() any
	real  sync.Pool
	items []any
}

func (p *Pool) Get() any {
	if verifrt.On() {
		if n := len(p.items); n > 0 {
			x := p.items[n-1]
			p.items = p.items[:n-1]
			return x
		}
		if p.New != nil {
			return p.New()
		}
		return nil
	}
	p.real.New = p.New
	return p.real.Get()
}

func (p *Pool) Put(x any) {
	if verifrt.On() {
		p.items = append(p.items, x)
		return
	}
	p.real.Put(x)
}

func NewCond(l Locker) *Cond { return sync.NewCond(l) }

func OnceFunc(f func()) func() { return sync.OnceFunc(f) }

type Mutex struct {
	real sync.Mutex
}

func (m *Mutex) Lock() {
	if verifrt.On() {
		verifrt.Point(uintptr(unsafe.Pointer(m)), verifrt.KLock, "Mutex.Lock")
		return
	}
	m.real.Lock()
}

func (m *Mutex) Unlock() {
	if verifrt.On() {
		verifrt.Point(uintptr(unsafe.Pointer(m)), verifrt.KUnlock, "Mutex.Unlock")
		return
	}
	m.real.Unlock()
}

func (m *Mutex) TryLock() bool { return m.real.TryLock() }

// RWMutex is modelled as an exclusive lock under the scheduler (sound for safety
// properties of the code under test: fewer behaviours of readers overlap, none are added).
type RWMutex struct {
	real sync.RWMutex
}

func (m *RWMutex) Lock() {
	if verifrt.On() {
		verifrt.Point(uintptr(unsafe.Pointer(m)), verifrt.KLock, "RWMutex.Lock")
		return
	}
	m.real.Lock()
}
func (m *RWMutex) Unlock() {
	if verifrt.On() {
		verifrt.Point(uintptr(unsafe.Pointer(m)), verifrt.KUnlock, "RWMutex.Unlock")
		return
	}
	m.real.Unlock()
}
func (m *RWMutex) RLock() {
	if verifrt.On() {
		verifrt.Point(uintptr(unsafe.Pointer(m)), verifrt.KLock, "RWMutex.RLock")
		return
	}
	m.real.RLock()
}
func (m *RWMutex) RUnlock() {
	if verifrt.On() {
		verifrt.Point(uintptr(unsafe.Pointer(m)), verifrt.KUnlock, "RWMutex.RUnlock")
		return
	}
	m.real.RUnlock()
}

type Once struct {
	real sync.Once
}

func (o *Once) Do(f func()) {
	if verifrt.On() {
		if verifrt.OnceDo(uintptr(unsafe.Pointer(o)), f) {
			return
		}
	}
	o.real.Do(f)
}

type WaitGroup struct {
	real sync.WaitGroup
}

func (w *WaitGroup) Add(d int) {
	if verifrt.On() && verifrt.WgAdd(uintptr(unsafe.Pointer(w)), d) {
		return
	}
	w.real.Add(d)
}
func (w *WaitGroup) Done() { w.Add(-1) }
func (w *WaitGroup) Wait() {
	if verifrt.On() && verifrt.WgWait(uintptr(unsafe.Pointer(w))) {
		return
	}
	w.real.Wait()
}
