// Package vatomic stands in for sync/atomic in instrumented builds: every operation is a
// scheduling point followed by the real operation.
package vatomic

import (
	"sync/atomic"
	"unsafe"

	"github.com/csgura/fp/verifrt"
)

func pt(p unsafe.Pointer, note string) {
	if verifrt.On() {
		k := verifrt.KAtomic
		if len(note) >= 4 && (note[:4] == "Load" || note[len(note)-4:] == "Load") {
			k = verifrt.KAtomicLoad
		}
		verifrt.Point(uintptr(p), k, note)
	}
}

func LoadPointer(addr *unsafe.Pointer) unsafe.Pointer {
	pt(unsafe.Pointer(addr), "LoadPointer")
	return atomic.LoadPointer(addr)
}
func StorePointer(addr *unsafe.Pointer, val unsafe.Pointer) {
	pt(unsafe.Pointer(addr), "StorePointer")
	atomic.StorePointer(addr, val)
}
func SwapPointer(addr *unsafe.Pointer, new unsafe.Pointer) unsafe.Pointer {
	pt(unsafe.Pointer(addr), "SwapPointer")
	return atomic.SwapPointer(addr, new)
}
func CompareAndSwapPointer(addr *unsafe.Pointer, old, new unsafe.Pointer) bool {
	pt(unsafe.Pointer(addr), "CompareAndSwapPointer")
	return atomic.CompareAndSwapPointer(addr, old, new)
}

func LoadInt32(addr *int32) int32 {
	pt(unsafe.Pointer(addr), "LoadInt32")
	return atomic.LoadInt32(addr)
}
func LoadInt64(addr *int64) int64 {
	pt(unsafe.Pointer(addr), "LoadInt64")
	return atomic.LoadInt64(addr)
}
func LoadUint32(addr *uint32) uint32 {
	pt(unsafe.Pointer(addr), "LoadUint32")
	return atomic.LoadUint32(addr)
}
func LoadUint64(addr *uint64) uint64 {
	pt(unsafe.Pointer(addr), "LoadUint64")
	return atomic.LoadUint64(addr)
}
func StoreInt32(addr *int32, v int32) {
	pt(unsafe.Pointer(addr), "StoreInt32")
	atomic.StoreInt32(addr, v)
}
func StoreInt64(addr *int64, v int64) {
	pt(unsafe.Pointer(addr), "StoreInt64")
	atomic.StoreInt64(addr, v)
}
func StoreUint32(addr *uint32, v uint32) {
	pt(unsafe.Pointer(addr), "StoreUint32")
	atomic.StoreUint32(addr, v)
}
func StoreUint64(addr *uint64, v uint64) {
	pt(unsafe.Pointer(addr), "StoreUint64")
	atomic.StoreUint64(addr, v)
}
func AddInt32(addr *int32, d int32) int32 {
	pt(unsafe.Pointer(addr), "AddInt32")
	return atomic.AddInt32(addr, d)
}
func AddInt64(addr *int64, d int64) int64 {
	pt(unsafe.Pointer(addr), "AddInt64")
	return atomic.AddInt64(addr, d)
}
func AddUint32(addr *uint32, d uint32) uint32 {
	pt(unsafe.Pointer(addr), "AddUint32")
	return atomic.AddUint32(addr, d)
}
func AddUint64(addr *uint64, d uint64) uint64 {
	pt(unsafe.Pointer(addr), "AddUint64")
	return atomic.AddUint64(addr, d)
}
func SwapInt32(addr *int32, v int32) int32 {
	pt(unsafe.Pointer(addr), "SwapInt32")
	return atomic.SwapInt32(addr, v)
}
func SwapInt64(addr *int64, v int64) int64 {
	pt(unsafe.Pointer(addr), "SwapInt64")
	return atomic.SwapInt64(addr, v)
}
func CompareAndSwapInt32(addr *int32, o, n int32) bool {
	pt(unsafe.Pointer(addr), "CompareAndSwapInt32")
	return atomic.CompareAndSwapInt32(addr, o, n)
}
func CompareAndSwapInt64(addr *int64, o, n int64) bool {
	pt(unsafe.Pointer(addr), "CompareAndSwapInt64")
	return atomic.CompareAndSwapInt64(addr, o, n)
}
func CompareAndSwapUint32(addr *uint32, o, n uint32) bool {
	pt(unsafe.Pointer(addr), "CompareAndSwapUint32")
	return atomic.CompareAndSwapUint32(addr, o, n)
}
func CompareAndSwapUint64(addr *uint64, o, n uint64) bool {
	pt(unsafe.Pointer(addr), "CompareAndSwapUint64")
	return atomic.CompareAndSwapUint64(addr, o, n)
}

// Value mirrors atomic.Value.
type Value struct {
	real atomic.Value
}

func (v *Value) Load() any        { pt(unsafe.Pointer(v), "Value.Load"); return v.real.Load() }
func (v *Value) Store(val any)    { pt(unsafe.Pointer(v), "Value.Store"); v.real.Store(val) }
func (v *Value) Swap(new any) any { pt(unsafe.Pointer(v), "Value.Swap"); return v.real.Swap(new) }
func (v *Value) CompareAndSwap(old, new any) bool {
	pt(unsafe.Pointer(v), "Value.CompareAndSwap")
	return v.real.CompareAndSwap(old, new)
}

// Bool, Int32, Int64, Uint32, Uint64 and Pointer mirror the typed atomics.
type Bool struct{ real atomic.Bool }

func (x *Bool) Load() bool       { pt(unsafe.Pointer(x), "Bool.Load"); return x.real.Load() }
func (x *Bool) Store(v bool)     { pt(unsafe.Pointer(x), "Bool.Store"); x.real.Store(v) }
func (x *Bool) Swap(v bool) bool { pt(unsafe.Pointer(x), "Bool.Swap"); return x.real.Swap(v) }
func (x *Bool) CompareAndSwap(o, n bool) bool {
	pt(unsafe.Pointer(x), "Bool.CompareAndSwap")
	return x.real.CompareAndSwap(o, n)
}

type Int32 struct{ real atomic.Int32 }

func (x *Int32) Load() int32        { pt(unsafe.Pointer(x), "Int32.Load"); return x.real.Load() }
func (x *Int32) Store(v int32)      { pt(unsafe.Pointer(x), "Int32.Store"); x.real.Store(v) }
func (x *Int32) Add(d int32) int32  { pt(unsafe.Pointer(x), "Int32.Add"); return x.real.Add(d) }
func (x *Int32) Swap(v int32) int32 { pt(unsafe.Pointer(x), "Int32.Swap"); return x.real.Swap(v) }
func (x *Int32) CompareAndSwap(o, n int32) bool {
	pt(unsafe.Pointer(x), "Int32.CompareAndSwap")
	return x.real.CompareAndSwap(o, n)
}

type Int64 struct{ real atomic.Int64 }

func (x *Int64) Load() int64        { pt(unsafe.Pointer(x), "Int64.Load"); return x.real.Load() }
func (x *Int64) Store(v int64)      { pt(unsafe.Pointer(x), "Int64.Store"); x.real.Store(v) }
func (x *Int64) Add(d int64) int64  { pt(unsafe.Pointer(x), "Int64.Add"); return x.real.Add(d) }
func (x *Int64) Swap(v int64) int64 { pt(unsafe.Pointer(x), "Int64.Swap"); return x.real.Swap(v) }
func (x *Int64) CompareAndSwap(o, n int64) bool {
	pt(unsafe.Pointer(x), "Int64.CompareAndSwap")
	return x.real.CompareAndSwap(o, n)
}

type Uint32 struct{ real atomic.Uint32 }

func (x *Uint32) Load() uint32        { pt(unsafe.Pointer(x), "Uint32.Load"); return x.real.Load() }
func (x *Uint32) Store(v uint32)      { pt(unsafe.Pointer(x), "Uint32.Store"); x.real.Store(v) }
func (x *Uint32) Add(d uint32) uint32 { pt(unsafe.Pointer(x), "Uint32.Add"); return x.real.Add(d) }
func (x *Uint32) CompareAndSwap(o, n uint32) bool {
	pt(unsafe.Pointer(x), "Uint32.CompareAndSwap")
	return x.real.CompareAndSwap(o, n)
}

type Uint64 struct{ real atomic.Uint64 }

func (x *Uint64) Load() uint64        { pt(unsafe.Pointer(x), "Uint64.Load"); return x.real.Load() }
func (x *Uint64) Store(v uint64)      { pt(unsafe.Pointer(x), "Uint64.Store"); x.real.Store(v) }
func (x *Uint64) Add(d uint64) uint64 { pt(unsafe.Pointer(x), "Uint64.Add"); return x.real.Add(d) }
func (x *Uint64) CompareAndSwap(o, n uint64) bool {
	pt(unsafe.Pointer(x), "Uint64.CompareAndSwap")
	return x.real.CompareAndSwap(o, n)
}

type Pointer[T any] struct{ real atomic.Pointer[T] }

func (x *Pointer[T]) Load() *T     { pt(unsafe.Pointer(x), "Pointer.Load"); return x.real.Load() }
func (x *Pointer[T]) Store(v *T)   { pt(unsafe.Pointer(x), "Pointer.Store"); x.real.Store(v) }
func (x *Pointer[T]) Swap(v *T) *T { pt(unsafe.Pointer(x), "Pointer.Swap"); return x.real.Swap(v) }
func (x *Pointer[T]) CompareAndSwap(o, n *T) bool {
	pt(unsafe.Pointer(x), "Pointer.CompareAndSwap")
	return x.real.CompareAndSwap(o, n)
}
